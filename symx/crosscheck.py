"""Re-decide a deterministic sample of recorded z3 queries with cvc5 (thorough tier).

Each recorded item is (smt2 text produced by z3 for path condition + query atom, z3's verdict).  cvc5 (python wheel) parses
the text and decides it under a per-query time limit.  A definite disagreement (sat vs unsat) makes the run inconclusive;
cvc5 'unknown'/timeouts are counted but are not disagreements."""
from __future__ import annotations

import time


def _cvc5_decide(text, tlimit_ms=10000):
    import cvc5
    try:
        tm = cvc5.TermManager()
        slv = cvc5.Solver(tm)
    except AttributeError:      # older API
        slv = cvc5.Solver()
    slv.setOption("tlimit-per", str(tlimit_ms))
    slv.setLogic("ALL")
    parser = cvc5.InputParser(slv)
    parser.setStringInput(cvc5.InputLanguage.SMT_LIB_2_6, text, "query")
    sm = parser.getSymbolManager()
    verdict = None
    while True:
        cmd = parser.nextCommand()
        if cmd.isNull():
            break
        out = cmd.invoke(slv, sm)
        o = str(out).strip()
        if o in ("sat", "unsat", "unknown"):
            verdict = o
        if "(error" in o:
            return "error: " + o
    return verdict or "none"


def crosscheck(recorded, seed, limit=200):
    import random
    rnd = random.Random(seed)
    items = list(recorded)
    rnd.shuffle(items)
    items = items[:limit]
    t0 = time.time()
    res = {"checked": 0, "agree": 0, "cvc5_unknown": 0, "errors": 0, "disagreements": 0, "examples": []}
    for text, z3v in items:
        text = text.replace("(set-info :status unknown)", "")
        try:
            v = _cvc5_decide(text)
        except Exception as e:  # pragma: no cover
            v = "error: " + repr(e)
        res["checked"] += 1
        if v == z3v:
            res["agree"] += 1
        elif v in ("unknown", "none"):
            res["cvc5_unknown"] += 1
        elif v.startswith("error"):
            res["errors"] += 1
            if len(res["examples"]) < 3:
                res["examples"].append(v[:200])
        else:
            res["disagreements"] += 1
            if len(res["examples"]) < 3:
                res["examples"].append({"z3": z3v, "cvc5": v, "query": text[:600]})
    res["wall_s"] = round(time.time() - t0, 2)
    return res
