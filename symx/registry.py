"""property id -> harness modules that decide it."""
REGISTRY = {
    "C11": {"harnesses": ["harness.h11"], "level": "other"},
    "C16": {"harnesses": ["harness.h16"], "level": "other"},
    "C17": {"harnesses": ["harness.h17"], "level": "other"},
    "C20": {"harnesses": ["harness.h20"], "level": "other"},
    "C18": {"harnesses": ["harness.h18"], "level": "other"},
    "C12": {"harnesses": ["harness.h12"], "level": "other"},
    "C15": {"harnesses": ["harness.h15"], "level": "other"},
    "C02": {"harnesses": ["harness.h02"], "level": "other"},
    "C03": {"harnesses": ["harness.hrx"], "level": "model_checking"},
    "C04": {"harnesses": ["harness.hrx"], "level": "model_checking"},
    "C05": {"harnesses": ["harness.hrx"], "level": "model_checking"},
    "C14": {"harnesses": ["harness.hrx"], "level": "model_checking"},
    "C06": {"harnesses": ["harness.hrx", "harness.h07"], "level": "model_checking"},
    "C07": {"harnesses": ["harness.h07"], "level": "other"},
    "C09": {"harnesses": ["harness.h09"], "level": "other"},
    "C10": {"harnesses": ["harness.h10"], "level": "other"},
}
