"""property id -> harness modules that decide it."""
REGISTRY = {
    "C10": {"harnesses": ["harness.h10"], "level": "other"},
}
