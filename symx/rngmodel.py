"""Model of numpy's SeedSequence / BitGenerator / Generator as far as repex.py uses them.

A stream is identified by (entropy, spawn_key) -- exactly what numpy derives the PCG64 state from -- plus a position
(number of draws consumed).  `bit_generator.state` is a TOML-able dict encoding (stream id, position); assigning it
restores both, as numpy does.  `_seed_seq.spawn(n)` appends (n_children_spawned + i) to the spawn key, as numpy does.
The model is validated against numpy on concrete seeds in symx/selftest.py.
"""
from __future__ import annotations

from . import core


class SeedSeqModel:
    def __init__(self, entropy=None, *, spawn_key=(), pool_size=4, n_children_spawned=0):
        self.entropy = entropy
        self.spawn_key = tuple(spawn_key)
        self.n_children_spawned = n_children_spawned
        self.pool_size = pool_size

    def spawn(self, n_children):
        out = []
        for i in range(n_children):
            out.append(SeedSeqModel(self.entropy, spawn_key=self.spawn_key + (self.n_children_spawned + i,),
                                    pool_size=self.pool_size))
        self.n_children_spawned += n_children
        return out

    @property
    def ident(self):
        return (self.entropy, self.spawn_key)

    def __repr__(self):
        return f"SeedSeq(entropy={self.entropy}, spawn_key={self.spawn_key}, spawned={self.n_children_spawned})"


class StreamRegistry:
    """maps stream identities to small integers so that bit_generator.state is TOML-able."""

    def __init__(self):
        self.ids = []

    def code(self, ident):
        for i, x in enumerate(self.ids):
            if _ident_eq(x, ident):
                return i
        self.ids.append(ident)
        return len(self.ids) - 1

    def ident(self, code):
        return self.ids[code]


def _ident_eq(a, b):
    if a is b:
        return True
    (ea, ka), (eb, kb) = a, b
    if len(ka) != len(kb):
        return False
    for x, y in zip((ea,) + tuple(ka), (eb,) + tuple(kb)):
        if x is y:
            continue
        if isinstance(x, core.Q) or isinstance(y, core.Q):
            if not (x == y):
                return False
        elif x != y:
            return False
    return True


REG = StreamRegistry()


class BitGenModel:
    def __init__(self, seed=None):
        if isinstance(seed, SeedSeqModel):
            self._seed_seq = seed
        else:
            self._seed_seq = SeedSeqModel(seed)
        self.stream = self._seed_seq.ident   # identity of the stream the numbers come from
        self.pos = 0                          # draws consumed

    @property
    def seed_seq(self):
        return self._seed_seq

    @property
    def state(self):
        return {"bit_generator": "PCG64", "state": {"state": self.pos, "inc": REG.code(self.stream)},
                "has_uint32": 0, "uinteger": 0}

    @state.setter
    def state(self, value):
        self.pos = int(value["state"]["state"])
        self.stream = REG.ident(int(value["state"]["inc"]))


class GenModel:
    """Generator whose draws are nondeterministic (explored) -- subclass hooks decide how."""

    def __init__(self, bit_generator=None):
        self.bit_generator = bit_generator if bit_generator is not None else BitGenModel()
        self.log = []

    def _tick(self, kind, value):
        self.log.append((self.bit_generator.stream, self.bit_generator.pos, kind, value))
        self.bit_generator.pos += 1

    def random(self, size=None):
        ctx = core.CUR
        u = ctx.real(ctx.fresh("u"), lo=0, hi=1)
        self._tick("random", u)
        return u

    def choice(self, n, p=None):
        ctx = core.CUR
        hook = getattr(GenModel, "choice_hook", None)
        if hook is not None:
            hook(n, p)
        n = int(n) if not hasattr(n, "__len__") else len(n)
        if p is None:
            v = ctx.choice(n, "choice")
        else:
            cand = [i for i in range(n) if p[i] > 0]
            # first_admissible: a harness that only needs *a* legal continuation takes the first index with p > 0 (no fork)
            v = cand[0] if (getattr(GenModel, "first_admissible", False) and cand) else ctx.pick(cand, "choice")
        self._tick("choice", v)
        return v

    def integers(self, low, high=None):
        ctx = core.CUR
        if high is None:
            low, high = 0, low
        v = int(low) + ctx.choice(int(high) - int(low), "integers")
        self._tick("integers", v)
        return v


def default_rng_model(seed=None):
    if isinstance(seed, (BitGenModel,)):
        return GenModel(seed)
    return GenModel(BitGenModel(seed))


class NpRandomNS:
    """stands for numpy.random inside the np facade of repex.py"""
    SeedSequence = SeedSeqModel
    default_rng = staticmethod(default_rng_model)
