"""SYMX core: symbolic execution of real Python functions on proxy numbers, decided by z3.

Scalars are exact rational functions num/den of the symbolic variables, both kept as
expanded multivariate polynomials over Q (dict monomial -> Fraction).  Every comparison
cross-multiplies, expands and -- unless decided syntactically or by what the current path
already knows -- asks z3 whether both outcomes are feasible under the path condition.  If
both are, the executor forks (decision log, depth-first search, re-execution of the harness
from its entry with the log replayed).  See DESIGN.md section 1.2.
"""
from __future__ import annotations

import itertools
import math
import time
from fractions import Fraction

import numpy as np
import z3


class Inconclusive(Exception):
    """The solver answered unknown / a resource bound was hit: never a pass, never an alarm."""


class HarnessError(Exception):
    """The harness itself is wrong (non-deterministic replay, missing witness, ...)."""


class _Abort(BaseException):
    """Current path is infeasible (assumption false / no polarity satisfiable)."""


class _Skip(BaseException):
    """Current path belongs to another partition of a split instance."""


def _vhash(v):
    h = 1469598103
    for x in v:
        h = (h * 1000003 + int(x) + 7) % 2147483647
    return h


class _Stop(BaseException):
    """Current path ended early (violation recorded)."""


CUR = None  # the active context (Ctx or ConcreteCtx)


# ----------------------------------------------------------------------------- polynomials
class Poly:
    """Multivariate polynomial over Q in expanded normal form.

    t: dict mapping a monomial (tuple of (var_index, exponent), sorted by var_index) to a
    non-zero Fraction."""

    __slots__ = ("t",)

    def __init__(self, t):
        self.t = t

    @staticmethod
    def const(c):
        c = Fraction(c)
        return Poly({(): c} if c else {})

    @staticmethod
    def var(i):
        return Poly({((i, 1),): Fraction(1)})

    def is_zero(self):
        return not self.t

    def is_const(self):
        return all(m == () for m in self.t)

    def constval(self):
        return self.t.get((), Fraction(0))

    def __add__(a, b):
        if not b.t:
            return a
        if not a.t:
            return b
        t = dict(a.t)
        for m, c in b.t.items():
            v = t.get(m, 0) + c
            if v:
                t[m] = v
            else:
                t.pop(m, None)
        return Poly(t)

    def __neg__(a):
        return Poly({m: -c for m, c in a.t.items()})

    def __sub__(a, b):
        return a + (-b)

    def scale(a, c):
        if not c:
            return Poly({})
        return Poly({m: v * c for m, v in a.t.items()})

    def __mul__(a, b):
        if not a.t or not b.t:
            return Poly({})
        if len(a.t) < len(b.t):
            a, b = b, a
        if len(b.t) == 1:
            (m2, c2), = b.t.items()
            if not m2:
                return a.scale(c2)
        rules = CUR.rules if CUR is not None else None
        t = {}
        pending = []
        for m2, c2 in b.t.items():
            for m1, c1 in a.t.items():
                if not m2:
                    m = m1
                elif not m1:
                    m = m2
                else:
                    d = dict(m1)
                    for v, e in m2:
                        d[v] = d.get(v, 0) + e
                    m = tuple(sorted(d.items()))
                if rules and any(v in rules and e >= 2 for v, e in m):
                    pending.append((m, c1 * c2))
                    continue
                v = t.get(m, 0) + c1 * c2
                if v:
                    t[m] = v
                else:
                    t.pop(m, None)
        res = Poly(t)
        for m, c in pending:
            res = res + _rewrite_mono(m, c, rules)
        return res

    def vars(self):
        s = set()
        for m in self.t:
            for v, _ in m:
                s.add(v)
        return s

    def degree(self):
        return max((sum(e for _, e in m) for m in self.t), default=0)

    def sign_syntactic(self):
        """+1/-1/0 when the sign follows from coefficient signs (all odd-power vars positive)."""
        if not self.t:
            return 0
        pos = CUR.positive
        for m in self.t:
            for v, e in m:
                if e % 2 and v not in pos:
                    return None
        s = 0
        for c in self.t.values():
            if c > 0:
                if s < 0:
                    return None
                s = 1
            else:
                if s > 0:
                    return None
                s = -1
        # strict sign only if some monomial cannot vanish: monomials of positive vars only
        strict = False
        for m in self.t:
            if all(v in pos for v, _ in m):
                strict = True
                break
        if strict:
            return s
        return None  # sign is >=0 / <=0 but may be zero: leave to the solver

    def canon(self):
        """(key, flip): key identifies the polynomial up to a positive/negative scalar."""
        lead_m = max(self.t)
        lead = self.t[lead_m]
        flip = lead < 0
        k = tuple(sorted((m, c / lead) for m, c in self.t.items()))
        return k, flip

    def evalf(self, values):
        tot = Fraction(0)
        for m, c in self.t.items():
            term = c
            for v, e in m:
                term *= values[v] ** e
            tot += term
        return tot


def _rewrite_mono(m, c, rules):
    """apply y^2 -> p rules to a monomial with exponent >= 2 on a rule variable."""
    rest = []
    out = Poly({(): Fraction(c)})
    for v, e in m:
        if v in rules and e >= 2:
            q, r = divmod(e, 2)
            for _ in range(q):
                out = out * rules[v]
            if r:
                rest.append((v, 1))
        else:
            rest.append((v, e))
    if rest:
        out = out * Poly({tuple(rest): Fraction(1)})
    return out


ONE = Poly.const(1)
ZERO = Poly.const(0)

_OPS = {
    ">": frozenset((1,)),
    ">=": frozenset((0, 1)),
    "==": frozenset((0,)),
    "!=": frozenset((-1, 1)),
    "<": frozenset((-1,)),
    "<=": frozenset((-1, 0)),
}
_ALL = frozenset((-1, 0, 1))


def _flip_set(s):
    return frozenset(-x for x in s)


# ----------------------------------------------------------------------------- scalars
def _num(x):
    """convert a concrete python/numpy number to a Q constant (or NotImplemented)."""
    if isinstance(x, Q):
        return x
    if isinstance(x, (bool, np.bool_)):
        return Q(Poly.const(int(x)))
    if isinstance(x, (int, Fraction)):
        return Q(Poly.const(x))
    if isinstance(x, float):
        if math.isinf(x) or math.isnan(x):
            return NotImplemented
        return Q(Poly.const(Fraction(x)))
    if isinstance(x, np.integer):
        return Q(Poly.const(int(x)))
    if isinstance(x, np.floating):
        f = float(x)
        if math.isinf(f) or math.isnan(f):
            return NotImplemented
        return Q(Poly.const(Fraction(f)))
    return NotImplemented


def _isinf(x):
    return isinstance(x, (float, np.floating)) and math.isinf(float(x))


class Q:
    """rational function n/d; d is kept positive (syntactically or decided on this path)."""

    __slots__ = ("n", "d")

    def __init__(self, n, d=ONE):
        self.n = n
        self.d = d

    # -- arithmetic
    def __add__(a, b):
        b = _num(b)
        if b is NotImplemented:
            return b
        if a.d is b.d or a.d.t == b.d.t:
            return Q(a.n + b.n, a.d)._red()
        return Q(a.n * b.d + b.n * a.d, a.d * b.d)._red()

    __radd__ = __add__

    def __neg__(a):
        return Q(-a.n, a.d)

    def __pos__(a):
        return a

    def __sub__(a, b):
        b = _num(b)
        if b is NotImplemented:
            return b
        return a + (-b)

    def __rsub__(a, b):
        b = _num(b)
        if b is NotImplemented:
            return b
        return b + (-a)

    def __mul__(a, b):
        b = _num(b)
        if b is NotImplemented:
            return b
        return Q(a.n * b.n, a.d * b.d)._red()

    __rmul__ = __mul__

    def __truediv__(a, b):
        b = _num(b)
        if b is NotImplemented:
            return b
        s = b.n.sign_syntactic()
        if s is None:
            if CUR.decide(b.n, ">"):
                s = 1
            elif CUR.decide(b.n, "=="):
                raise ZeroDivisionError("symbolic division by zero")
            else:
                s = -1
        if s == 0:
            raise ZeroDivisionError("division by zero")
        if s > 0:
            return Q(a.n * b.d, a.d * b.n)._red()
        return Q(-(a.n * b.d), a.d * (-b.n))._red()

    def __rtruediv__(a, b):
        b = _num(b)
        if b is NotImplemented:
            return b
        return b / a

    def __pow__(a, k):
        if isinstance(k, (int, np.integer)) and k >= 0:
            r = Q(ONE)
            for _ in range(int(k)):
                r = r * a
            return r
        if isinstance(k, float) and k == 0.5:
            return CUR.sqrt(a)
        return NotImplemented

    def _red(self):
        # cheap reduction: constant denominators and identical num/den factors
        d = self.d
        if d.is_const():
            c = d.constval()
            if c != 1:
                return Q(self.n.scale(1 / c), ONE)
            return self
        if not self.n.t:
            return Q(ZERO, ONE)
        if self.n.t == d.t:
            return Q(ONE, ONE)
        # common monomial / content cancellation when the denominator is a single monomial
        if len(d.t) == 1:
            (dm, dc), = d.t.items()
            dd = dict(dm)
            common = None
            for m in self.n.t:
                mm = dict(m)
                cur = {v: min(e, mm.get(v, 0)) for v, e in dd.items()}
                if common is None:
                    common = cur
                else:
                    common = {v: min(e, cur.get(v, 0)) for v, e in common.items()}
                if not any(common.values()):
                    break
            if common and any(common.values()):
                def strip(m):
                    mm = dict(m)
                    for v, e in common.items():
                        if e:
                            mm[v] -= e
                            if not mm[v]:
                                del mm[v]
                    return tuple(sorted(mm.items()))
                n2 = Poly({strip(m): c / dc for m, c in self.n.t.items()})
                d2 = Poly({strip(dm): Fraction(1)})
                return Q(n2, d2 if d2.t != ONE.t else ONE)
        return self

    def __abs__(a):
        return a if CUR.decide(a.n, ">=") else -a

    # -- comparisons (each may fork)
    def _cmp(a, b, op):
        if _isinf(b):
            pos = float(b) > 0
            return {">": not pos, ">=": not pos, "<": pos, "<=": pos, "==": False, "!=": True}[op]
        b = _num(b)
        if b is NotImplemented:
            return b
        if a.d is b.d or a.d.t == b.d.t:
            p = a.n - b.n
        else:
            p = a.n * b.d - b.n * a.d
        return CUR.decide(p, op)

    def __gt__(a, b):
        return a._cmp(b, ">")

    def __ge__(a, b):
        return a._cmp(b, ">=")

    def __lt__(a, b):
        return a._cmp(b, "<")

    def __le__(a, b):
        return a._cmp(b, "<=")

    def __eq__(a, b):
        r = a._cmp(b, "==")
        return False if r is NotImplemented else r

    def __ne__(a, b):
        r = a._cmp(b, "!=")
        return True if r is NotImplemented else r

    __hash__ = None

    def __bool__(a):
        return CUR.decide(a.n, "!=")

    def is_const(self):
        return self.n.is_const() and self.d.is_const()

    def const(self):
        return self.n.constval() / self.d.constval()

    def __index__(a):
        return CUR.concretize(a)

    def __int__(a):
        if a.is_const():
            return int(a.const())
        return CUR.concretize(a)

    def __float__(a):
        if a.is_const():
            return float(a.const())
        raise Inconclusive("float() of a symbolic value")

    def __round__(a, nd=None):
        if a.is_const():
            return round(a.const(), nd)
        raise Inconclusive("round() of a symbolic value")

    def __format__(a, spec):
        if a.is_const():
            return format(float(a.const()), spec)
        return repr(a)

    def __repr__(a):
        if a.is_const():
            return f"Q({a.const()})"
        return f"Q<{len(a.n.t)}t/{len(a.d.t)}t>"

    def __str__(a):
        """exact, parseable rendering: constants as fractions, symbolic values as registry tokens."""
        if a.is_const():
            return str(a.const())
        toks = CUR.tokens
        toks.append(a)
        return f"@Q{len(toks) - 1}@"

    def pretty(a):
        return f"({_pp(a.n)})/({_pp(a.d)})" if a.d.t != ONE.t else _pp(a.n)


def _pp(p):
    if not p.t:
        return "0"
    names = CUR.names
    out = []
    for m, c in sorted(p.t.items()):
        mono = "*".join(names[v] + (f"^{e}" if e > 1 else "") for v, e in m)
        out.append(f"{c}" + ("*" + mono if mono else ""))
    return " + ".join(out)


def qconst(x):
    return Q(Poly.const(x))


def parse_number(s):
    """inverse of Q.__str__ (and of str(float)): token -> the registered Q, otherwise an exact constant."""
    s = s.strip()
    if s.startswith("@Q") and s.endswith("@"):
        return CUR.tokens[int(s[2:-1])]
    try:
        return qconst(Fraction(s))
    except ValueError:
        return qconst(Fraction(float(s)))


def is_sym(x):
    return isinstance(x, Q) and not x.is_const()


# ----------------------------------------------------------------------------- contexts
class Violation:
    def __init__(self, label, detail, values, choices, known_key=None):
        self.label = label
        self.detail = detail
        self.values = values
        self.choices = choices
        self.known_key = known_key

    def to_json(self):
        return {
            "label": self.label,
            "detail": self.detail,
            "values": {k: str(v) for k, v in self.values.items()},
            "choices": self.choices,
            "known_key": self.known_key,
        }


class _Entry:
    __slots__ = ("kind", "key", "value", "forked", "tried", "level", "n", "constraint")

    def __init__(self, kind, key, value, forked=False, tried=True, level=0, n=0, constraint=None):
        self.kind = kind
        self.key = key
        self.value = value
        self.forked = forked
        self.tried = tried
        self.level = level
        self.n = n
        self.constraint = constraint


class Ctx:
    """Symbolic context for one harness instance (one shape tuple)."""

    symbolic = True

    def __init__(self, timeout_ms=30000, max_paths=2_000_000, record_queries=0, seed=0, prefix=()):
        self.focus = None          # property id under check (labels of other properties do not end a path)
        self.other_violations = []
        self.other_hit = False
        self.max_degree = None     # polynomials above this degree are forked on without asking the solver
        self.blind_forks = 0
        self._fo_suppressed = False
        self.split = tuple(prefix) if prefix else None   # (i, N, depth)
        self.fork_outcomes = []
        self.skipped = 0
        self.names = []
        self.kinds = []
        self.z3vars = []
        self.byname = {}
        self.positive = set()
        self.rules = {}
        self.sqrt_memo = {}
        self.exp_memo = {}
        self.solver = z3.Solver()
        self.timeout_ms = timeout_ms
        self.blind_atoms = []
        self.solver.set("timeout", timeout_ms)
        self.level = 0
        self.log = []
        self.pos = 0
        self._gates = {}
        self.known = {}
        self.model = None
        self.z3cache = {}
        self.nq = 0
        self.tq = 0.0
        self.paths = 0
        self.forked_paths = 0
        self.aborted = 0
        self.forks = 0
        self.violations = []
        self.known_hits = []
        self.covers = {}
        self.checks = 0
        self.max_paths = max_paths
        self.path_choices = []
        self.samples = []
        self.record_queries = record_queries
        self.recorded = []
        self._rq_rng = np.random.RandomState(seed % (2**32))
        self.path_forked = False
        self.varcount = 0
        self.notes = {}

    # -- variables
    def _newvar(self, name, kind, positive):
        if name in self.byname:
            i = self.byname[name]
            return i
        i = len(self.names)
        self.names.append(name)
        self.kinds.append(kind)
        self.z3vars.append(z3.Int(name) if kind == "int" else z3.Real(name))
        self.byname[name] = i
        if positive:
            self.positive.add(i)
        return i

    def fresh(self, prefix):
        self.varcount += 1
        return f"{prefix}#{self.varcount}"

    def real(self, name, lo=None, hi=None, positive=False, lo_strict=True, hi_strict=True):
        """fresh/named real variable; lo/hi are assumed (strict by default) bounds."""
        if positive and lo is None:
            lo = 0
        new = name not in self.byname
        i = self._newvar(name, "real", positive or (lo is not None and _is_nonneg_const(lo) and lo_strict))
        q = Q(Poly.var(i))
        if lo is not None:
            self.assume(self.rel(q, ">" if lo_strict else ">=", lo))
        if hi is not None:
            self.assume(self.rel(q, "<" if hi_strict else "<=", hi))
        return q

    def int(self, name, lo=None, hi=None):
        """named integer variable with inclusive bounds."""
        i = self._newvar(name, "int", lo is not None and _is_nonneg_const(lo) and lo > 0)
        q = Q(Poly.var(i))
        if lo is not None:
            self.assume(self.rel(q, ">=", lo))
        if hi is not None:
            self.assume(self.rel(q, "<=", hi))
        return q

    def is_intvalued(self, q):
        if not q.d.is_const():
            return False
        c = q.d.constval()
        for m, v in q.n.t.items():
            if (v / c).denominator != 1:
                return False
            for var, _ in m:
                if self.kinds[var] != "int":
                    return False
        return True

    # -- z3 translation
    def poly_z3(self, p):
        out = []
        for m, c in p.t.items():
            term = None
            for v, e in m:
                zv = self.z3vars[v]
                for _ in range(e):
                    term = zv if term is None else term * zv
            if term is None:
                term = z3.RealVal(str(c))
            elif c != 1:
                term = z3.RealVal(str(c)) * term
            out.append(term)
        if not out:
            return z3.RealVal(0)
        return z3.Sum(out) if len(out) > 1 else out[0]

    def _atom(self, key, signs):
        ck = (key, signs)
        a = self.z3cache.get(ck)
        if a is None:
            e = self.z3cache.get(key)
            if e is None:
                e = self.poly_z3(Poly(dict(key)))
                if not z3.is_real(e):
                    e = z3.ToReal(e)
                self.z3cache[key] = e
            if signs == _OPS[">"]:
                a = e > 0
            elif signs == _OPS[">="]:
                a = e >= 0
            elif signs == _OPS["=="]:
                a = e == 0
            elif signs == _OPS["!="]:
                a = e != 0
            elif signs == _OPS["<"]:
                a = e < 0
            elif signs == _OPS["<="]:
                a = e <= 0
            else:
                raise HarnessError("bad sign set")
            self.z3cache[ck] = a
        return a

    def rel(self, a, op, b):
        """z3 atom for (a op b) without deciding it (for assumptions / lazy checks)."""
        a = _num(a)
        b = _num(b)
        if a is NotImplemented or b is NotImplemented:
            raise HarnessError("rel() on non-numbers")
        for d in (a.d, b.d):
            if d.sign_syntactic() != 1:
                raise HarnessError("rel(): denominator sign unknown")
        p = a.n * b.d - b.n * a.d
        if not p.t:
            return z3.BoolVal(0 in _OPS[op])
        if p.is_const():
            c = p.constval()
            s = (c > 0) - (c < 0)
            return z3.BoolVal(s in _OPS[op])
        key, flip = p.canon()
        signs = _flip_set(_OPS[op]) if flip else _OPS[op]
        return self._atom(key, signs)

    # -- solver plumbing
    def _check(self, *assumptions):
        t = time.time()
        r = self.solver.check(*assumptions)
        self.tq += time.time() - t
        self.nq += 1
        r = str(r)
        if self.record_queries and len(self.recorded) < self.record_queries:
            if self._rq_rng.random_sample() < 0.02 or r == "unsat" and self._rq_rng.random_sample() < 0.2:
                s = z3.Solver()
                s.add(self.solver.assertions())
                for a in assumptions:
                    s.add(a)
                self.recorded.append((s.to_smt2(), r))
        if r == "unknown":
            raise Inconclusive("z3 unknown: " + self.solver.reason_unknown())
        return r

    def assume(self, cond):
        """add an assumption (z3 Bool or python bool) to the path condition."""
        if isinstance(cond, (bool, np.bool_)):
            if not cond:
                raise _Abort()
            return
        if self.pos < len(self.log):
            e = self.log[self.pos]
            if e.kind != "assume":
                raise HarnessError("non-deterministic replay (assume)")
            self.pos += 1
            return
        self.solver.add(cond)
        self.model = None
        self.log.append(_Entry("assume", None, None, level=self.level))
        self.pos += 1

    def feasible(self):
        return self._check() == "sat"

    def decide(self, p, op):
        """truth value of (p op 0) on this path; forks if both outcomes are feasible."""
        signs = _OPS[op]
        if not p.t:
            return 0 in signs
        if p.is_const():
            c = p.constval()
            return ((c > 0) - (c < 0)) in signs
        s = p.sign_syntactic()
        if s is not None:
            return s in signs
        key, flip = p.canon()
        if flip:
            signs = _flip_set(signs)
        kn = self.known.get(key, _ALL)
        if kn <= signs:
            return True
        if not (kn & signs):
            return False
        # replay
        if self.pos < len(self.log):
            e = self.log[self.pos]
            if e.kind != "dec" or e.key != (key, signs):
                raise HarnessError("non-deterministic replay (decision)")
            self.pos += 1
            val = e.value
            self.known[key] = (kn & signs) if val else (kn - signs)
            if e.forked:
                self.path_forked = True
                if e.constraint is None:
                    self.blind_atoms.append((key, signs if val else (_ALL - signs)))
                self._fork_outcome(1 if val else 0)
            return val
        if self.max_degree is not None and p.degree() > self.max_degree:
            # blind fork: both outcomes are explored, nothing is asserted to the solver (keeps the path condition in the
            # decidable fragment). This over-approximates path feasibility: sound for 'holds'; a violation found on such a
            # path must still reproduce in the concrete replay before it is reported.
            self.blind_forks += 1
            self.forks += 1
            self.path_forked = True
            self.log.append(_Entry("dec", (key, signs), True, forked=True, tried=False, level=self.level, constraint=None))
            self.pos += 1
            self.known[key] = kn & signs
            self.blind_atoms.append((key, signs))
            self._fork_outcome(1)
            return True
        atom = self._atom(key, signs)
        natom = self._atom(key, _ALL - signs)
        ev = None
        if self.model is not None:
            v = self.model.eval(atom, model_completion=True)
            ev = True if z3.is_true(v) else (False if z3.is_false(v) else None)
        m_t = m_f = None
        if ev is True:
            sat_t, m_t = True, self.model
        else:
            sat_t = self._check(atom) == "sat"
            if sat_t:
                m_t = self.solver.model()
        if ev is False:
            sat_f, m_f = True, self.model
        else:
            sat_f = self._check(natom) == "sat"
            if sat_f:
                m_f = self.solver.model()
        if sat_t and sat_f:
            self.forks += 1
            self.path_forked = True
            self.log.append(_Entry("dec", (key, signs), True, forked=True, tried=False, level=self.level,
                                   constraint=(atom, natom)))
            self.pos += 1
            self.solver.push()
            self.level += 1
            self.solver.add(atom)
            self.model = m_t
            self.known[key] = kn & signs
            self._fork_outcome(1)
            return True
        if sat_t:
            self.log.append(_Entry("dec", (key, signs), True, level=self.level))
            self.pos += 1
            self.model = m_t
            self.known[key] = kn & signs
            return True
        if sat_f:
            self.log.append(_Entry("dec", (key, signs), False, level=self.level))
            self.pos += 1
            self.model = m_f
            self.known[key] = kn - signs
            return False
        raise _Abort()

    def choice(self, n, label=""):
        """nondeterministic choice among n concrete alternatives (all explored)."""
        if n <= 0:
            raise _Abort()
        if n == 1:
            return 0
        if self.pos < len(self.log):
            e = self.log[self.pos]
            if e.kind != "choice" or e.n != n:
                raise HarnessError("non-deterministic replay (choice)")
            self.pos += 1
            self.path_choices.append((label, e.value))
            self.path_forked = True
            self._fork_outcome(e.value)
            return e.value
        self.log.append(_Entry("choice", label, 0, forked=True, tried=False, level=self.level, n=n))
        self.pos += 1
        self.path_choices.append((label, 0))
        self.path_forked = True
        self._fork_outcome(0)
        return 0

    def side_end(self, start_pos):
        """end of a side computation that does not influence what follows (e.g. a restart simulated on a copy): True when a
        fork inside it (log positions start_pos..now) is on a branch other than its first. The harness then ends the path:
        what follows is explored once, behind the first branches, instead of once per combination. Recorded with the
        choices so that the concrete replay ends at the same place."""
        v = 0
        for e in self.log[start_pos:self.pos]:
            if (e.kind == "dec" and e.forked and e.value is False) or (e.kind == "choice" and e.value > 0):
                v = 1
                break
        self.path_choices.append(("side-end", v))
        return bool(v)

    def gate(self, name, budget):
        """a budgeted, logged yes/no: True for the first `budget` distinct path prefixes that ask, False afterwards. The answer
        is part of the decision log (re-executions of the same prefix get the same answer) and of the recorded choices (the
        concrete replay follows it). Used to bound optional extra exploration; a False only ever means *less* is explored
        on that path and is counted in notes."""
        if self.pos < len(self.log):
            e = self.log[self.pos]
            if e.kind != "gate":
                raise HarnessError("non-deterministic replay (gate)")
            self.pos += 1
            self.path_choices.append(("gate:" + name, e.value))
            return bool(e.value)
        used = self._gates.get(name, 0)
        v = 1 if used < budget else 0
        self._gates[name] = used + v
        if not v:
            self.notes["gate-closed:" + name] = self.notes.get("gate-closed:" + name, 0) + 1
        self.log.append(_Entry("gate", name, v, level=self.level))
        self.pos += 1
        self.path_choices.append(("gate:" + name, v))
        return bool(v)

    def _fork_outcome(self, v):
        """partitioned exploration: sub-instance i of N follows a path only if the hash of its first D fork outcomes
        is i (mod N); the test is made as soon as the D-th fork is taken."""
        if self._fo_suppressed:
            return
        fo = self.fork_outcomes
        fo.append(v)
        if self.split and len(fo) == self.split[2]:
            if _vhash(fo) % self.split[1] != self.split[0]:
                self.skipped += 1
                raise _Skip()

    def pick(self, options, label=""):
        options = list(options)
        return options[self.choice(len(options), label)]

    def concretize(self, q, limit=64):
        """fork over the concrete integer values q can take on this path."""
        q = _num(q)
        if q.is_const():
            c = q.const()
            if c.denominator != 1:
                raise HarnessError("concretize: non-integer constant")
            return int(c)
        if not self.is_intvalued(q):
            raise Inconclusive("concretize of a non-integer symbolic value")
        for _ in range(limit):
            # candidate from a model of the path condition; logged, so that a replay proposes the same candidates
            if self.pos < len(self.log) and self.log[self.pos].kind == "cand":
                v = self.log[self.pos].value
                self.pos += 1
            else:
                if self.pos < len(self.log):
                    raise HarnessError("non-deterministic replay (candidate)")
                if self.model is None:
                    if self._check() != "sat":
                        raise _Abort()
                    self.model = self.solver.model()
                vals = self._model_values(self.model)
                v = q.n.evalf(vals) / q.d.evalf(vals)
                if v.denominator != 1:
                    raise HarnessError("integer-valued term evaluated to a fraction")
                v = int(v)
                self.log.append(_Entry("cand", None, v, level=self.level))
                self.pos += 1
            self._fo_suppressed = True
            try:
                hit = q == v
            finally:
                self._fo_suppressed = False
            if hit:
                # for the partitioned exploration the outcome of a concretisation is the VALUE (canonical), not the
                # position of the value in the model-dependent order in which candidates were proposed
                self._fork_outcome(v % 65521)
                return v
        raise Inconclusive("concretize: too many values")

    def _model_values(self, model):
        vals = {}
        for i, zv in enumerate(self.z3vars):
            mv = model.eval(zv, model_completion=True)
            vals[i] = _z3_to_fraction(mv)
        return vals

    def floor(self, q, name=None):
        """integer variable n with n <= q < n+1."""
        q = _num(q)
        if q.is_const():
            return qconst(math.floor(q.const()))
        n = self.int(name or self.fresh("floor"))
        self.assume(z3.And(self.rel(n, "<=", q), self.rel(q, "<", n + 1)))
        return n

    def sqrt(self, q):
        """exact square root as a fresh non-negative variable y with rewrite rule y^2 -> q."""
        q = _num(q)
        if q.is_const():
            c = q.const()
            if c < 0:
                raise ValueError("sqrt of negative")
            r = Fraction(math.isqrt(c.numerator), math.isqrt(c.denominator))
            if r * r == c:
                return qconst(r)
        if q.d.t != ONE.t:
            # sqrt(n/d) = sqrt(n*d)/d   (d > 0)
            return self.sqrt(Q(q.n * q.d)) / Q(q.d)
        key = tuple(sorted(q.n.t.items()))
        y = self.sqrt_memo.get(key)
        if y is None:
            i = self._newvar(self.fresh("sqrt"), "real", False)
            self.rules[i] = q.n
            y = Q(Poly.var(i))
            self.sqrt_memo[key] = y
            self._sqrt_pending = getattr(self, "_sqrt_pending", [])
        # y >= 0 and radicand >= 0; y*y == radicand is applied as a rewrite rule during
        # normalisation (the solver only sees y as a non-negative real: an over-approximation)
        # (radicand >= 0 is not asserted: it would make the path condition nonlinear, and every radicand in the
        #  analysed code is a sum of squares; leaving it out only enlarges the set of models, which is sound for proving)
        self.assume(self.poly_z3(y.n) >= 0)
        return y

    def exp(self, q):
        """exp(q) as a fresh positive variable, memoised on the normal form of q (never approximated)."""
        q = _num(q)
        if q.is_const() and q.const() == 0:
            return qconst(1)
        key = (tuple(sorted(q.n.t.items())), tuple(sorted(q.d.t.items())))
        y = self.exp_memo.get(key)
        if y is None:
            i = self._newvar(self.fresh("exp"), "real", True)
            y = Q(Poly.var(i))
            self.exp_memo[key] = y
            self.exp_args = getattr(self, "exp_args", {})
            self.exp_args[i] = q
        self.assume(self.poly_z3(y.n) > 0)
        return y

    def rint(self, q, name=None):
        """nearest integer n with n - 1/2 < q < n + 1/2 (ties excluded by assumption)."""
        q = _num(q)
        if q.is_const():
            c = q.const()
            n = math.floor(c + Fraction(1, 2))
            if c + Fraction(1, 2) == n and n % 2:
                n -= 1
            return qconst(n)
        n = self.int(name or self.fresh("rint"))
        half = Fraction(1, 2)
        self.assume(z3.And(self.rel(n - half, "<", q), self.rel(q, "<", n + half)))
        return n

    def rint_enum(self, q, K=3):
        """nearest integer of q by forking over the concrete candidates -K..K (keeps every query linear);
        exact ties and |q| >= K + 1/2 are outside the bound (path dropped, noted)."""
        q = _num(q)
        if q.is_const():
            return self.rint(q)
        half = Fraction(1, 2)
        if self.max_degree is not None and max(q.n.degree(), q.d.degree()) > self.max_degree:
            # nonlinear argument: one nondeterministic choice of the integer, recorded as (unasserted) knowledge about the
            # two thresholds -- K*2+1 outcomes instead of a blind fork per comparison
            cand = sorted(range(-K, K + 1), key=abs)
            n = cand[self.choice(len(cand), "rint")]
            for bound, op in ((n - half, ">"), (n + half, "<")):
                b = _num(bound)
                p = q.n * b.d - b.n * q.d
                if p.t and not p.is_const():
                    key, flip = p.canon()
                    signs = _flip_set(_OPS[op]) if flip else _OPS[op]
                    kn = self.known.get(key, _ALL)
                    if not (kn & signs):
                        raise _Abort()
                    self.known[key] = kn & signs
                    self.blind_atoms.append((key, signs))
            return qconst(n)
        for n in sorted(range(-K, K + 1), key=abs):
            if q > n - half and q < n + half:
                return qconst(n)
        self.note("rint-tie-or-out-of-bound")
        raise _Abort()

    def rotation(self, name):
        """(c, s) with c^2 + s^2 = 1, applied as the rewrite rule s^2 -> 1 - c^2 during normalisation."""
        ci = self._newvar(f"{name}.c", "real", False)
        si = self._newvar(f"{name}.s", "real", False)
        c, s = Q(Poly.var(ci)), Q(Poly.var(si))
        self.rules[si] = Poly.const(1) - Poly.var(ci) * Poly.var(ci)
        return c, s

    # -- properties
    def cover(self, tag):
        self.covers[tag] = self.covers.get(tag, 0) + 1

    def note(self, key, n=1):
        self.notes[key] = self.notes.get(key, 0) + n

    def current_values(self):
        if self.blind_atoms:
            # decisions taken without the solver (nonlinear): try to get a model that also satisfies them, so that a
            # counterexample found on this path can reproduce; fall back to a model of the linear part
            self.solver.push()
            try:
                for key, signs in self.blind_atoms:
                    self.solver.add(self._atom(key, signs))
                self.solver.set("timeout", 15000)
                r = self.solver.check()
                if str(r) == "sat":
                    vals = self._model_values(self.solver.model())
                    return {self.names[i]: v for i, v in vals.items()}
            finally:
                self.solver.pop()
                self.solver.set("timeout", self.timeout_ms)
                self.model = None
        if self.model is None:
            if self._check() != "sat":
                raise _Abort()
            self.model = self.solver.model()
        vals = self._model_values(self.model)
        return {self.names[i]: v for i, v in vals.items()}

    def check(self, cond, label, detail=None, known_key=None):
        """assert cond on this path. cond: python bool (already decided, possibly by forking)
        or a z3 Bool (checked for validity under the path condition, no fork)."""
        self.checks += 1
        if isinstance(cond, (bool, np.bool_)):
            ok = bool(cond)
        elif isinstance(cond, z3.BoolRef):
            r = self._check(z3.Not(cond))
            ok = r == "unsat"
            if not ok:
                self.model = None
                self.solver.push()
                self.solver.add(z3.Not(cond))
                try:
                    vals = self.current_values()
                finally:
                    self.solver.pop()
                    self.model = None
                self._violate(label, detail, vals, known_key)
                return False
        else:
            raise HarnessError(f"check(): unsupported condition type {type(cond)}")
        if not ok:
            self._violate(label, detail, self.current_values(), known_key)
        return ok

    def _violate(self, label, detail, vals, known_key):
        if callable(detail):
            detail = detail()
        v = Violation(label, detail, vals, list(self.path_choices), known_key)
        if known_key is not None:
            self.known_hits.append(v)
            return  # a known finding does not end the path
        if self.focus and not label.startswith(self.focus + ":"):
            # an assertion that belongs to another property of a shared harness: recorded, the path goes on so that the
            # consequences for the property under check can still be observed
            self.other_violations.append(v)
            self.other_hit = True
            return
        self.violations.append(v)
        raise _Stop()

    def fail(self, label, detail=None, known_key=None):
        self.check(False, label, detail, known_key)

    # -- exploration
    def _reset_path(self):
        self.pos = 0
        self.known = {}
        self.path_choices = []
        self.path_forked = False
        self.other_hit = False
        self.blind_atoms = []
        self.fork_outcomes = []
        self.varcount = 0
        self.tokens = []
        self.sqrt_memo = {}
        self.exp_memo = {}

    def _backtrack(self):
        """flip the deepest open fork; False when exploration is complete."""
        while self.log:
            e = self.log[-1]
            if e.kind == "dec" and e.forked and not e.tried:
                while self.level > e.level:
                    self.solver.pop()
                    self.level -= 1
                e.tried = True
                e.value = False
                if e.constraint is not None:
                    self.solver.push()
                    self.level += 1
                    self.solver.add(e.constraint[1])
                self.model = None
                return True
            if e.kind == "choice" and e.value + 1 < e.n:
                while self.level > e.level:
                    self.solver.pop()
                    self.level -= 1
                e.value += 1
                self.model = None
                return True
            self.log.pop()
        while self.level > 0:
            self.solver.pop()
            self.level -= 1
        return False

    def explore(self, fn, sample_every=0, stop_on_violation=True):
        global CUR
        prev = CUR
        CUR = self
        try:
            while True:
                self._reset_path()
                try:
                    fn(self)
                    if self.split and len(self.fork_outcomes) < self.split[2] and \
                            _vhash(self.fork_outcomes) % self.split[1] != self.split[0]:
                        self.skipped += 1
                        raise _Skip()
                    self.paths += 1
                    if self.path_forked:
                        self.forked_paths += 1
                    if len(self.samples) < 3 and (self.paths in (1, 7, 40)):
                        try:
                            vals = self.current_values()
                            self.samples.append({
                                "path": self.paths,
                                "choices": [list(c) for c in self.path_choices][:20],
                                "forked_decisions": sum(1 for e in self.log if e.kind == "dec" and e.forked),
                                "witness": {k: str(v) for k, v in list(vals.items())[:24]},
                            })
                        except _Abort:
                            pass
                except _Skip:
                    pass
                except _Abort:
                    self.aborted += 1
                except _Stop:
                    self.paths += 1
                    if stop_on_violation:
                        break
                if self.paths + self.aborted > self.max_paths:
                    raise Inconclusive("path budget exceeded")
                if not self._backtrack():
                    break
        finally:
            CUR = prev
        return self

    def stats(self):
        return {
            "paths": self.paths,
            "forked_paths": self.forked_paths,
            "infeasible": self.aborted,
            "skipped_other_partition": self.skipped,
            "blind_forks": self.blind_forks,
            "forks": self.forks,
            "queries": self.nq,
            "solver_s": round(self.tq, 3),
            "checks": self.checks,
            "covers": dict(self.covers),
            "notes": dict(self.notes),
            "violations": [v.to_json() for v in self.violations] + [v.to_json() for v in self.other_violations[:20]],
            "known_hits": [v.to_json() for v in self.known_hits[:50]],
            "n_known_hits": len(self.known_hits),
            "samples": self.samples,
            "nvars": len(self.names),
            "recorded": self.recorded,
        }


def _is_nonneg_const(x):
    return isinstance(x, (int, float, Fraction)) and x >= 0


def _z3_to_fraction(mv):
    if z3.is_int_value(mv):
        return Fraction(mv.as_long())
    if z3.is_rational_value(mv):
        return Fraction(mv.numerator_as_long(), mv.denominator_as_long())
    if z3.is_algebraic_value(mv):
        return Fraction(mv.approx(30).as_fraction())
    try:
        return Fraction(str(mv))
    except Exception:
        return Fraction(0)


class ConcreteCtx:
    """Runs the same harness on concrete values (replay of a counterexample).

    mode 'exact': numbers are constant Q (Fractions), decisions are all syntactic.
    mode 'float': numbers are python floats (the unpatched code sees what users see)."""

    symbolic = False

    def __init__(self, values, choices, mode="exact"):
        self.values = dict(values)
        self.choices = list(choices)
        self.cpos = 0
        self.mode = mode
        self.violations = []
        self.known_hits = []
        self.covers = {}
        self.notes = {}
        self.names = []
        self.positive = set()
        self.rules = {}
        self.varcount = 0
        self.path_choices = []
        self.tokens = []

    def fresh(self, prefix):
        self.varcount += 1
        return f"{prefix}#{self.varcount}"

    def _val(self, name, isint=False):
        if name not in self.values:
            raise HarnessError(f"replay: no value for {name}")
        v = Fraction(self.values[name])
        if self.mode == "float":
            return int(v) if isint or v.denominator == 1 and isint else float(v)
        return qconst(v)

    def real(self, name, lo=None, hi=None, positive=False, lo_strict=True, hi_strict=True):
        return self._val(name)

    def int(self, name, lo=None, hi=None):
        v = Fraction(self.values[name])
        return int(v) if self.mode == "float" else qconst(v)

    def rel(self, a, op, b):
        import operator
        f = {">": operator.gt, ">=": operator.ge, "==": operator.eq, "!=": operator.ne,
             "<": operator.lt, "<=": operator.le}[op]
        return bool(f(a, b))

    def assume(self, cond):
        if isinstance(cond, z3.BoolRef):
            cond = z3.is_true(z3.simplify(cond))
        if not cond:
            raise _Abort()

    def decide(self, p, op):
        if not p.t:
            return 0 in _OPS[op]
        if not p.is_const():
            # only exact algebraic elements (square roots) can be left: polynomial identities have already cancelled,
            # orderings are decided numerically
            v = self._approx(Q(p))
            scale = sum(abs(float(c)) for c in p.t.values()) or 1.0
            sgn = 0 if abs(v) <= 1e-11 * scale else (1 if v > 0 else -1)
            return sgn in _OPS[op]
        c = p.constval()
        return ((c > 0) - (c < 0)) in _OPS[op]

    def choice(self, n, label=""):
        if n <= 1:
            return 0
        if self.cpos >= len(self.choices):
            raise HarnessError("replay: ran out of recorded choices")
        lab, v = self.choices[self.cpos]
        self.cpos += 1
        return v

    def pick(self, options, label=""):
        options = list(options)
        return options[self.choice(len(options), label)]

    def side_end(self, start_pos):
        if self.cpos >= len(self.choices):
            raise HarnessError("replay: ran out of recorded choices")
        lab, v = self.choices[self.cpos]
        if lab != "side-end":
            raise HarnessError("replay: recorded choice is not the side-end mark")
        self.cpos += 1
        return bool(v)

    def gate(self, name, budget):
        if self.cpos >= len(self.choices):
            raise HarnessError("replay: ran out of recorded choices")
        lab, v = self.choices[self.cpos]
        if lab != "gate:" + name:
            raise HarnessError("replay: recorded choice is not the gate")
        self.cpos += 1
        return bool(v)

    def concretize(self, q, limit=64):
        q = _num(q)
        return int(q.const())

    def floor(self, q, name=None):
        if self.mode == "float":
            return math.floor(q)
        q = _num(q)
        return qconst(math.floor(q.const()))

    def sqrt(self, q):
        if self.mode == "float":
            return math.sqrt(q)
        q = _num(q)
        if not q.is_const():
            # radicand contains an earlier irrational: stay exact with a nested algebraic element
            key = (tuple(sorted(q.n.t.items())), tuple(sorted(q.d.t.items())))
            approx = self._approx(q)
        else:
            c = q.const()
            if c < 0:
                raise ValueError("sqrt of negative")
            r = Fraction(math.isqrt(c.numerator), math.isqrt(c.denominator))
            if r * r == c:
                return qconst(r)
            key = c
            approx = float(c)
        memo = self.__dict__.setdefault("_sqrt_memo", {})
        if key in memo:
            return memo[key]
        # an exact algebraic element y with y^2 -> radicand (rewrite rule), plus its numerical value for orderings
        i = len(self.names)
        self.names.append(f"sqrt#{i}")
        if q.d.t != ONE.t and not q.d.is_const():
            y = self.sqrt(Q(q.n * q.d)) / Q(q.d)
            memo[key] = y
            return y
        self.rules[i] = q.n.scale(1 / q.d.constval())
        self.__dict__.setdefault("_approx_vals", {})[i] = math.sqrt(max(approx, 0.0))
        y = Q(Poly.var(i))
        memo[key] = y
        return y

    def _approx(self, q):
        vals = self.__dict__.get("_approx_vals", {})

        def ev(p):
            tot = 0.0
            for m, c in p.t.items():
                term = float(c)
                for v, e in m:
                    term *= vals[v] ** e
                tot += term
            return tot
        return ev(q.n) / ev(q.d)

    def exp(self, q):
        self.exp_args = getattr(self, "exp_args", {})
        if self.mode == "float":
            v = math.exp(q)
        else:
            v = qconst(Fraction(math.exp(float(_num(q).const()))))
        self.exp_args[len(self.exp_args)] = (q, v)
        return v

    def rint(self, q, name=None):
        if self.mode == "float":
            return float(round(q))
        if not _num(q).is_const():      # contains exact square roots: the nearest integer of its numerical value
            v = self._approx(_num(q))
            return qconst(math.floor(v + 0.5))
        c = _num(q).const()
        n = math.floor(c + Fraction(1, 2))
        if c + Fraction(1, 2) == n and n % 2:
            n -= 1
        return qconst(n)

    def rint_enum(self, q, K=3):
        return self.rint(q)

    def rotation(self, name):
        c = Fraction(self.values[f"{name}.c"])
        s = Fraction(self.values[f"{name}.s"])
        if self.mode == "float":
            return float(c), float(s)
        return qconst(c), qconst(s)

    def cover(self, tag):
        self.covers[tag] = self.covers.get(tag, 0) + 1

    def note(self, key, n=1):
        pass

    def check(self, cond, label, detail=None, known_key=None):
        if isinstance(cond, z3.BoolRef):
            cond = z3.is_true(z3.simplify(cond))
        if not cond:
            if callable(detail):
                detail = detail()
            v = Violation(label, detail, {}, [], known_key)
            if known_key is not None:
                self.known_hits.append(v)
                return False
            self.violations.append(v)
            if getattr(self, "focus", None) and not label.startswith(self.focus + ":"):
                self.other_hit = True
                return False
            raise _Stop()
        return True

    def fail(self, label, detail=None, known_key=None):
        self.check(False, label, detail, known_key)

    def current_values(self):
        return dict(self.values)

    def run(self, fn):
        global CUR
        prev = CUR
        CUR = self
        try:
            try:
                fn(self)
            except (_Stop, _Abort):
                pass
        finally:
            CUR = prev
        return self


def reraise_if_proxy_limitation(e):
    """An exception that stems from the proxies / the np facade not supporting an operation (not from the code's logic)
    must never be reported as a violation of the property: it makes the run inconclusive."""
    if isinstance(e, (TypeError, NotImplementedError, HarnessError)):
        msg = str(e)
        if isinstance(e, (NotImplementedError, HarnessError)) or any(
                k in msg for k in ("ufunc", "'Q'", "Q<", "Q(", "LazyAbs", "Angle", "FTok", "SymLine", "object arrays",
                                   "not supported for the input types", "unsupported operand", "must be real number",
                                   "cannot be interpreted", "loop of ufunc")):
            raise Inconclusive(f"proxy/facade limitation, not a property verdict: {type(e).__name__}: {msg[:300]}")


def perm(M):
    """Leibniz permanent of a square list-of-lists (independent oracle)."""
    n = len(M)
    if n == 0:
        return qconst(1)
    tot = qconst(0)
    for p in itertools.permutations(range(n)):
        t = qconst(1)
        zero = False
        for i in range(n):
            x = M[i][p[i]]
            if isinstance(x, Q) and not x.n.t:
                zero = True
                break
            t = t * x
        if not zero:
            tot = tot + t
    return tot
