import importlib.util  # noqa: F401  infretis.classes.engines.factory needs importlib.util loaded
