"""./check <ID> [--tier quick|thorough] | ./check --replay <file>"""
from __future__ import annotations

import argparse
import importlib.util  # noqa: F401
import json
import os
import sys
import time

from . import runner
from .registry import REGISTRY

ROOT = runner.ROOT


def write_evidence(prop, tier, seed, res, level):
    agg = res["agg"]
    cov = {
        "explanation": res["explanation"],
        "technique": "symbolic execution of the real /repo functions on exact rational-function proxies; "
                     "every branch and every assertion decided by z3 (QF_LRA/LIA/NRA atoms over expanded polynomials)",
        "functions_encoded": res["funcs"],
        "bounds": res["bounds"],
        "instances": res["instances"],
        "instances_completed": res["instances_done"],
        "paths_completed": agg["paths"],
        "paths_infeasible_pruned": agg["infeasible"],
        "forks": agg["forks"],
        "solver_queries": agg["queries"],
        "solver_seconds": round(agg["solver_s"], 2),
        "assertion_checks_discharged": agg["checks"],
        "coverage_witnesses": res["covers"],
        "missing_witnesses": res["missing"],
        "notes": res["notes"],
        "known_findings_reobserved": res["known_keys_seen"],
        "known_finding_paths": res["n_known_hits"],
        "other_property_labels_violated": res["other_property_violations"],
        "inconclusive_or_error_instances": [
            {k: p.get(k) for k in ("module", "shape", "status", "error")} for p in res["problems"][:10]],
        "crosscheck": res.get("crosscheck"),
        "translator_validation": res.get("translator_validation"),
        "exhaustive": not res["problems"] and not res["missing"],
        # generic keys (measured): evaluations = completed symbolic paths; each path is a distinct
        # decision vector, non-trivial when it contains at least one forked decision or choice.
        "evaluations": max(agg["paths"], 1),
        "distinct_nontrivial": max(agg["forked_paths"], 0),
        "rule": "one evaluation = one feasible symbolic path of a harness instance (a class of inputs defined "
                "by its decision vector, decided for all values in the class); distinct by construction; "
                "non-trivial = the path contains at least one forked decision or nondeterministic choice",
        "samples": res["samples"] or [{"note": "no completed path"}],
    }
    if level == "model_checking":
        cov["states"] = max(agg["paths"], 1)
        cov["transitions"] = max(agg["checks"], 1)
        cov["traces_validated_against_impl"] = res["replays_ok"]
    ev = {
        "property_id": prop,
        "tier": tier,
        "seed": seed,
        "level": level,
        "coverage": cov,
        "assumptions": res["assumptions"],
        "wall_s": round(res["wall"], 2),
        "violations": res["violations_reported"],
    }
    os.makedirs(os.path.join(ROOT, "evidence"), exist_ok=True)
    with open(os.path.join(ROOT, "evidence", f"{prop}.json"), "w") as f:
        json.dump(ev, f, indent=1, default=str)


def main(argv=None):
    ap = argparse.ArgumentParser()
    ap.add_argument("prop", nargs="?")
    ap.add_argument("--tier", default=os.environ.get("VERIF_TIER", "quick"))
    ap.add_argument("--replay")
    ap.add_argument("--jobs", type=int, default=None)
    ap.add_argument("--only", help="restrict to one harness module (debugging)")
    ap.add_argument("--no-evidence", action="store_true")
    a = ap.parse_args(argv)
    seed = int(os.environ.get("VERIF_SEED", "0") or 0)
    if a.replay:
        d = json.load(open(a.replay))
        rp = runner._replay_worker((d["module"], d["shape"], d["violation"]))
        print(json.dumps(rp, indent=1))
        lab = d["violation"]["label"]
        ok = any(isinstance(rp.get(m), list) and lab in rp[m] for m in ("exact", "float"))
        print("REPRODUCED" if ok else "NOT-REPRODUCED", lab)
        return 1 if ok else 0
    tier = a.tier if a.tier in ("quick", "thorough") else "quick"
    prop = a.prop
    if prop not in REGISTRY:
        print(f"unknown property {prop}; known: {sorted(REGISTRY)}")
        return 2
    entry = REGISTRY[prop]
    harnesses = [h for h in entry["harnesses"] if not a.only or a.only in h]
    opts = {}
    if tier == "thorough":
        opts["record_queries"] = 12
    # translator validation first (facade / proxies / SeedSequence model against real numpy on the repo's own test inputs)
    import multiprocessing as mp
    with mp.get_context("fork").Pool(1) as pool:
        try:
            from . import selftest
            tv = pool.apply(selftest.run_all)
        except BaseException as e:  # noqa: BLE001
            print(f"[{prop}] translator validation FAILED: {e!r}")
            print(f"[{prop}] INCONCLUSIVE / harness error (exit 3): not a pass, not an alarm")
            return runner.EXIT_INCONCLUSIVE
    res = runner.run_property(prop, harnesses, tier, seed, jobs=a.jobs, opts=opts)
    res["translator_validation"] = tv
    if tier == "thorough" and res["recorded"]:
        from .crosscheck import crosscheck
        res["crosscheck"] = crosscheck(res["recorded"], seed)
        if res["crosscheck"]["disagreements"]:
            res["problems"].append({"status": "inconclusive", "error": "z3/cvc5 disagreement", "module": "crosscheck",
                                    "shape": None})
            if res["exit"] == 0:
                res["exit"] = runner.EXIT_INCONCLUSIVE
    if not a.no_evidence:
        write_evidence(prop, tier, seed, res, entry.get("level", "other"))
    agg = res["agg"]
    print(f"[{prop}/{tier}] instances={res['instances']} paths={agg['paths']} infeasible={agg['infeasible']} "
          f"queries={agg['queries']} solver_s={agg['solver_s']:.1f} checks={agg['checks']} wall={res['wall']:.1f}s")
    print(f"[{prop}] witnesses: " + ", ".join(f"{k}={v}" for k, v in sorted(res["covers"].items())))
    for ln in res["lines"]:
        print(ln)
    if res["other_property_violations"]:
        print(f"[{prop}] note: labels of other properties violated in shared harness: {res['other_property_violations']}")
    for p in res["problems"][:10]:
        print(f"[{prop}] PROBLEM {p.get('status')} {p.get('module')} {json.dumps(p.get('shape'))}: {p.get('error')}")
        if p.get("trace"):
            print(p["trace"])
    if res["missing"]:
        print(f"[{prop}] MISSING coverage witnesses (vacuity guard): {res['missing']}")
    if res["exit"] == 0:
        print(f"[{prop}] held on everything explored")
    elif res["exit"] == 3:
        print(f"[{prop}] INCONCLUSIVE / harness error (exit 3): not a pass, not an alarm")
    sys.stdout.flush()
    return res["exit"]


if __name__ == "__main__":
    sys.exit(main())
