"""Environment stubs shared by the harnesses (DESIGN.md section 1.4). Every stub is part of the claim."""
from __future__ import annotations

import importlib.util  # noqa: F401
from fractions import Fraction

from . import core
from .core import Q


def fdiv(a, b):
    """the double nearest to a/b for exact integers a, b (how the code's float division rounds)."""
    return Fraction(float(a) / float(b))


def mk_system(order, tag=None, config=None, vel_rev=False, vpot=None, ekin=None):
    from infretis.classes.system import System
    s = System()
    s.order = [order]
    s.config = config if config is not None else (f"file_{tag}", 0)
    s.vel_rev = vel_rev
    s.tag = tag
    s.vpot = vpot
    s.ekin = ekin
    return s


def mk_path(orders, maxlen=None, tagprefix="o", generated=None, path_number=None, fname=None):
    from infretis.classes.path import Path, DEFAULT_MAXLEN
    p = Path(maxlen=DEFAULT_MAXLEN if maxlen is None else maxlen)
    for i, o in enumerate(orders):
        p.phasepoints.append(mk_system(o, tag=(tagprefix, i), config=(fname or f"{tagprefix}.traj", i)))
    p.generated = generated
    p.path_number = path_number
    return p


def orders_of(path):
    return [pp.order[0] for pp in path.phasepoints]


def tags_of(path):
    return [getattr(pp, "tag", None) for pp in path.phasepoints]


class SymRng:
    """numpy.random.Generator stand-in: every draw is a fresh symbolic / nondeterministic value."""

    def __init__(self, ctx, name="rng"):
        self.ctx = ctx
        self.name = name
        self.n = 0
        self.draws = []

    def _nm(self, kind):
        self.n += 1
        return f"{self.name}.{kind}{self.n}"

    def random(self, size=None):
        if size is not None:
            raise core.HarnessError("SymRng.random(size) not modelled")
        u = self.ctx.real(self._nm("u"), lo=0, hi=1)
        self.draws.append(("random", u))
        return u

    def integers(self, low, high=None):
        if high is None:
            low, high = 0, low
        lo = int(low) if not isinstance(low, Q) else self.ctx.concretize(low)
        hi = int(high) if not isinstance(high, Q) else self.ctx.concretize(high)
        if hi <= lo:
            raise ValueError("low >= high")
        v = lo + self.ctx.choice(hi - lo, self._nm("int"))
        self.draws.append(("integers", v))
        return v

    def choice(self, n, p=None):
        n = int(n)
        if p is None:
            v = self.ctx.choice(n, self._nm("choice"))
        else:
            cand = [i for i in range(n) if p[i] > 0]
            v = self.ctx.pick(cand, self._nm("choice"))
        self.draws.append(("choice", v))
        return v

    def normal(self, loc=0.0, scale=1.0, size=None):
        import numpy as np
        shape = np.shape(scale) if size is None else (size if isinstance(size, tuple) else (size,))
        self.normal_calls = getattr(self, "normal_calls", [])
        out = np.empty(shape, dtype=object)
        for idx in np.ndindex(shape):
            out[idx] = self.ctx.real(self._nm("g") + "_" + "_".join(map(str, idx)))
        self.normal_calls.append({"loc": loc, "scale": scale, "size": size, "out": out})
        self.draws.append(("normal", out))
        return out


class ConstRng:
    """concrete generator with scripted outputs (used when a draw is a harness shape parameter)."""

    def __init__(self, randoms=(), integers=()):
        self.randoms = list(randoms)
        self.ints = list(integers)

    def random(self):
        return self.randoms.pop(0)

    def integers(self, a, b=None):
        return self.ints.pop(0)


class InvRng(SymRng):
    """random() = 1/x with x > 1 symbolic: keeps (L-2)/random() and comparisons with constants linear."""

    def random(self, size=None):
        from .core import Poly, ONE
        nm = self._nm("x")
        ctx = self.ctx
        if ctx.symbolic:
            x = ctx.real(nm, lo=1)
            u = Q(ONE, x.n)
        else:
            x = ctx.real(nm, lo=1)
            u = 1 / x
        self.draws.append(("random", u))
        return u


class _NullMsgFile:
    def __init__(self, *a, **k):
        pass

    def open(self):
        pass

    def write(self, s):
        pass

    def close(self):
        pass

    def flush(self):
        pass


def _engine_base():
    """EngineBase with the file layer of its propagate() prelude silenced: the REAL prelude (dump the frame, reverse
    velocities on disk if needed, re-point the system it was handed to the dumped file, set its direction) runs."""
    import infretis.classes.engines.enginebase as ibase
    ibase.FileIO = _NullMsgFile
    return ibase.EngineBase


class _StubEngineMixin:
    def _stub_init(self, description):
        base = _engine_base()
        base.__init__(self, description, 1.0, 1)
        self._exe_dir = "."
        self.prelude = []

    def _extract_frame(self, traj_file, idx, out_file):
        self.prelude.append(("extract", traj_file, idx, out_file))

    def _reverse_velocities(self, filename, outfile):
        self.prelude.append(("reverse", filename, outfile))

    def _read_configuration(self, filename):
        raise core.HarnessError("stub engine does not read configurations")

    def modify_velocities(self, system, vel_settings):
        raise core.HarnessError("this stub engine does not regenerate velocities")


def _mk_engine_class(name, mixin, body):
    base = _engine_base()
    return type(name, (_StubEngineMixin, base), body)


class _ScriptEngineBody:
    """MD engine stand-in obeying the C12 contract: the real EngineBase.propagate prelude runs, then _propagate_from emits
    frame 0 = the phase point it was given and frames with fresh symbolic order values, each added through the REAL
    EngineBase.add_to_path."""

    order_function = None

    def __init__(self, ctx, nfresh, name="eng", kick_changes_order=False):
        self._stub_init("script-engine")
        self._beta = 1.0
        self.ctx = ctx
        self.nfresh = nfresh
        self.name = name
        self.seg = 0
        self.kick_changes_order = kick_changes_order
        self.propagations = []
        self.rgen = None
        self.calls = []

    # -- interface used by tis.py
    def set_mdrun(self, pens):
        self.calls.append("set_mdrun")

    def clean_up(self):
        self.calls.append("clean_up")

    def modify_velocities(self, system, tis_set):
        self.calls.append("modify_velocities")
        system.kicked = True
        return self.ctx.real(f"{self.name}.dek"), self.ctx.real(f"{self.name}.kin", lo=0, lo_strict=False)

    def calculate_order(self, system):
        if self.kick_changes_order:
            return [self.ctx.real(f"{self.name}.kick_order")]
        return list(system.order)

    def dump_phasepoint(self, phasepoint, deffnm="conf"):
        phasepoint.set_pos((f"{self.name}/{deffnm}", 0))
        phasepoint.dumped = deffnm

    def seg_value(self, sid, k):
        return self.ctx.real(f"{self.name}.s{sid}_{k}")

    def _propagate_from(self, name, path, system, ens_set, msg_file, reverse=False):
        from infretis.classes.engines.enginebase import EngineBase
        left, _, right = ens_set["interfaces"]
        self.seg += 1
        sid = self.seg
        rec = {"sid": sid, "reverse": reverse, "start_tag": getattr(system, "tag", None), "start_order": system.order[0],
               "maxlen": path.maxlen, "frames": 0, "interfaces": (left, right)}
        self.propagations.append(rec)
        success, status = False, "script"
        k = 0
        while True:
            if k > self.nfresh:
                self.ctx.note("script-exhausted")
                self.ctx.assume(False)  # outside the stated bound on frames per propagation
            p = system.copy()
            p.vel_rev = reverse
            if k > 0:
                p.order = [self.seg_value(sid, k)]
            else:
                p.order = [system.order[0]]
            p.config = (f"{self.name}/traj{sid}", k)
            p.tag = (sid, k, "B" if reverse else "F", getattr(system, "tag", None))
            status, success, stop, add = EngineBase.add_to_path(path, p, left, right)
            rec["frames"] = k + 1
            if stop:
                break
            k += 1
        rec["success"] = success
        return success, status


class Line:
    """a symbolic bi-infinite order-parameter sequence (deterministic, time-reversible dynamics)."""

    def __init__(self, ctx, name):
        self.ctx, self.name = ctx, name

    def q(self, t):
        return self.ctx.real(f"{self.name}.q{t}".replace("-", "m"))

    def frame(self, t, d=1, vel_rev=False, level=None, energies=None):
        s = mk_system(self.q(t), tag=(self.name, t), config=(f"{self.name}.traj", t), vel_rev=vel_rev)
        s.line, s.t, s.d = self, t, d
        if energies is not None:
            s.vpot = energies.v(level, self.name, t)
            s.ekin = 0.0
        return s


class Energies:
    def __init__(self, ctx):
        self.ctx = ctx

    def v(self, level, line, t):
        return self.ctx.real(f"V{level}.{line}.{t}".replace("-", "m"))


class _LineEngineBody:
    """deterministic time-reversible engine: the real EngineBase.propagate prelude runs, then _propagate_from walks along
    the Line the phase point lives on, through the real add_to_path. The actual velocity direction of a phase point is
    system.d (+1/-1 in line index); propagate(reverse=True) walks against it."""

    order_function = None

    def __init__(self, ctx, level, budget, energies=None, beta=None):
        self._stub_init(f"line-engine-{level}")
        self.ctx, self.level, self.budget, self.energies = ctx, level, budget, energies
        self._beta = beta
        self.calls = []
        self.propagations = 0
        self.seg = 0
        self.rgen = None

    @property
    def beta(self):
        return self._beta

    def set_mdrun(self, pens):
        self.calls.append("set_mdrun")

    def clean_up(self):
        self.calls.append("clean_up")

    def dump_phasepoint(self, phasepoint, deffnm="conf"):
        phasepoint.set_pos((f"{self.level}/{deffnm}", 0))
        phasepoint.dumped = deffnm

    def _propagate_from(self, name, path, system, ens_set, msg_file, reverse=False):
        from infretis.classes.engines.enginebase import EngineBase
        left, _, right = ens_set["interfaces"]
        self.propagations += 1
        self.seg += 1
        step = -system.d if reverse else system.d
        success, status = False, "line"
        k = 0
        while True:
            if k > self.budget:
                self.ctx.note("line-budget-exhausted")
                self.ctx.assume(False)
            p = system.copy()
            p.t = system.t + k * step
            p.order = [system.line.q(p.t)]
            p.vel_rev = reverse
            p.config = (f"{self.level}/traj{self.seg}", k)
            p.tag = (system.line.name, p.t)
            if self.energies is not None:
                p.vpot = self.energies.v(self.level, system.line.name, p.t)
                p.ekin = 0.0
            status, success, stop, add = EngineBase.add_to_path(path, p, left, right)
            if stop:
                break
            k += 1
        return success, status


def _body(cls):
    return {k: v for k, v in cls.__dict__.items() if k not in ("__dict__", "__weakref__")}


_CACHE = {}


def ScriptEngine(*a, **k):
    if "script" not in _CACHE:
        _CACHE["script"] = _mk_engine_class("ScriptEngine", object, _body(_ScriptEngineBody))
    _engine_base()
    return _CACHE["script"](*a, **k)


def LineEngine(*a, **k):
    if "line" not in _CACHE:
        _CACHE["line"] = _mk_engine_class("LineEngine", object, _body(_LineEngineBody))
    _engine_base()
    return _CACHE["line"](*a, **k)
