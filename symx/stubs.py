"""Environment stubs shared by the harnesses (DESIGN.md section 1.4). Every stub is part of the claim."""
from __future__ import annotations

import importlib.util  # noqa: F401
from fractions import Fraction

from . import core
from .core import Q


def fdiv(a, b):
    """the double nearest to a/b for exact integers a, b (how the code's float division rounds)."""
    return Fraction(float(a) / float(b))


def mk_system(order, tag=None, config=None, vel_rev=False, vpot=None, ekin=None):
    from infretis.classes.system import System
    s = System()
    s.order = [order]
    s.config = config if config is not None else (f"file_{tag}", 0)
    s.vel_rev = vel_rev
    s.tag = tag
    s.vpot = vpot
    s.ekin = ekin
    return s


def mk_path(orders, maxlen=None, tagprefix="o", generated=None, path_number=None, fname=None):
    from infretis.classes.path import Path, DEFAULT_MAXLEN
    p = Path(maxlen=DEFAULT_MAXLEN if maxlen is None else maxlen)
    for i, o in enumerate(orders):
        p.phasepoints.append(mk_system(o, tag=(tagprefix, i), config=(fname or f"{tagprefix}.traj", i)))
    p.generated = generated
    p.path_number = path_number
    return p


def orders_of(path):
    return [pp.order[0] for pp in path.phasepoints]


def tags_of(path):
    return [getattr(pp, "tag", None) for pp in path.phasepoints]


class SymRng:
    """numpy.random.Generator stand-in: every draw is a fresh symbolic / nondeterministic value."""

    def __init__(self, ctx, name="rng"):
        self.ctx = ctx
        self.name = name
        self.n = 0
        self.draws = []

    def _nm(self, kind):
        self.n += 1
        return f"{self.name}.{kind}{self.n}"

    def random(self, size=None):
        if size is not None:
            raise core.HarnessError("SymRng.random(size) not modelled")
        u = self.ctx.real(self._nm("u"), lo=0, hi=1)
        self.draws.append(("random", u))
        return u

    def integers(self, low, high=None):
        if high is None:
            low, high = 0, low
        lo = int(low) if not isinstance(low, Q) else self.ctx.concretize(low)
        hi = int(high) if not isinstance(high, Q) else self.ctx.concretize(high)
        if hi <= lo:
            raise ValueError("low >= high")
        v = lo + self.ctx.choice(hi - lo, self._nm("int"))
        self.draws.append(("integers", v))
        return v

    def choice(self, n, p=None):
        n = int(n)
        if p is None:
            v = self.ctx.choice(n, self._nm("choice"))
        else:
            cand = [i for i in range(n) if p[i] > 0]
            v = self.ctx.pick(cand, self._nm("choice"))
        self.draws.append(("choice", v))
        return v

    def normal(self, loc=0.0, scale=1.0, size=None):
        import numpy as np
        shape = np.shape(scale) if size is None else (size if isinstance(size, tuple) else (size,))
        self.normal_calls = getattr(self, "normal_calls", [])
        out = np.empty(shape, dtype=object)
        for idx in np.ndindex(shape):
            out[idx] = self.ctx.real(self._nm("g") + "_" + "_".join(map(str, idx)))
        self.normal_calls.append({"loc": loc, "scale": scale, "size": size, "out": out})
        self.draws.append(("normal", out))
        return out


class ConstRng:
    """concrete generator with scripted outputs (used when a draw is a harness shape parameter)."""

    def __init__(self, randoms=(), integers=()):
        self.randoms = list(randoms)
        self.ints = list(integers)

    def random(self):
        return self.randoms.pop(0)

    def integers(self, a, b=None):
        return self.ints.pop(0)
