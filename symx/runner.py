"""Run harness instances in parallel, triage violations, write evidence."""
from __future__ import annotations

import hashlib
import importlib
import importlib.util  # noqa: F401  (infretis' factory.py needs importlib.util to be loaded)
import inspect
import json
import multiprocessing as mp
import os
import signal
import sys
import time
import traceback

from . import core

ROOT = os.path.dirname(os.path.dirname(os.path.abspath(__file__)))

EXIT_OK, EXIT_VIOLATION, EXIT_INCONCLUSIVE = 0, 1, 3


def load_known():
    path = os.path.join(ROOT, "known_findings.jsonl")
    out = {}
    if os.path.exists(path):
        for line in open(path):
            line = line.strip()
            if line and not line.startswith("#"):
                d = json.loads(line)
                out[d["key"]] = d
    return out


class _Timeout(BaseException):
    pass


def _alarm(signum, frame):
    raise _Timeout()


def _run_one(args):
    modname, shape, opts = args
    t0 = time.time()
    res = {"shape": shape, "module": modname}
    try:
        mod = importlib.import_module(modname)
        if hasattr(mod, "install"):
            mod.install()
        ctx = core.Ctx(timeout_ms=opts.get("solver_timeout_ms", 60000),
                       max_paths=opts.get("max_paths", 3_000_000),
                       record_queries=opts.get("record_queries", 0),
                       seed=opts.get("seed", 0) + hash(json.dumps(shape, sort_keys=True)) % 1000003,
                       prefix=shape.get("_split", ()))
        ctx.max_degree = opts.get("max_degree")
        ctx.focus = opts.get("focus")
        signal.signal(signal.SIGALRM, _alarm)
        signal.alarm(int(opts.get("instance_timeout_s", 3000)))
        try:
            ctx.explore(lambda c: mod.run_instance(c, shape))
        finally:
            signal.alarm(0)
        res.update(ctx.stats())
        res["status"] = "done"
    except core.Inconclusive as e:
        res["status"] = "inconclusive"
        res["error"] = str(e)
    except _Timeout:
        res["status"] = "inconclusive"
        res["error"] = "instance timeout"
    except Exception as e:  # harness error
        res["status"] = "error"
        res["error"] = "".join(traceback.format_exception_only(type(e), e)).strip()
        res["trace"] = traceback.format_exc()[-3000:]
    res["wall_s"] = round(time.time() - t0, 3)
    return res


def replay_violation(modname, shape, viol, mode="exact"):
    """Re-run the harness instance on the concrete counterexample. Returns the labels violated."""
    mod = importlib.import_module(modname)
    if mode == "float":
        if not hasattr(mod, "uninstall"):
            return None
        mod.uninstall()
    elif hasattr(mod, "install"):
        mod.install()
    values = {k: v for k, v in viol["values"].items()}
    cctx = core.ConcreteCtx(values, [tuple(c) for c in viol["choices"]], mode=mode)
    cctx.focus = viol["label"].split(":")[0]
    cctx.other_hit = False
    try:
        cctx.run(lambda c: mod.run_instance(c, shape))
    finally:
        if mode == "float" and hasattr(mod, "install"):
            mod.install()
    return [v.label for v in cctx.violations] + [v.label for v in cctx.known_hits]


def _replay_worker(args):
    modname, shape, viol = args
    out = {}
    for mode in ("exact", "float"):
        try:
            out[mode] = replay_violation(modname, shape, viol, mode)
        except BaseException as e:
            out[mode] = "error: " + repr(e)
    return out


def func_hashes(funcs):
    out = []
    for f in funcs:
        try:
            src = inspect.getsource(f)
            name = getattr(f, "__qualname__", getattr(f, "__name__", str(f)))
            modn = getattr(f, "__module__", "?")
            out.append({"function": f"{modn}.{name}", "sha256": hashlib.sha256(src.encode()).hexdigest()[:16],
                        "file": os.path.relpath(inspect.getsourcefile(f), os.environ.get("SYMX_REPO", "/repo"))})
        except Exception as e:  # pragma: no cover
            out.append({"function": str(f), "error": repr(e)})
    return out


def run_property(prop, harnesses, tier, seed, jobs=None, opts=None, out=sys.stdout):
    """harnesses: list of module names. Each module: PROPERTIES (ids it serves), instances(tier, prop),
    run_instance(ctx, shape), FUNCTIONS(), EXPECT (cover tags that must be seen), ASSUMPTIONS, EXPLANATION."""
    t0 = time.time()
    opts = dict(opts or {})
    opts["seed"] = seed
    opts["focus"] = prop
    jobs = jobs or min(16, os.cpu_count() or 4)
    known = load_known()
    tasks = []
    mods = {}
    for hn in harnesses:
        mod = importlib.import_module(hn)
        mods[hn] = mod
        for shape in mod.instances(tier, prop):
            nb = shape.pop("_splitbits", 0)
            sd = shape.pop("_splitdepth", None)      # number of leading forks whose outcomes are hashed (default nb + 2)
            if nb:
                N = 2 ** nb
                for i in range(N):
                    tasks.append((hn, dict(shape, _split=[i, N, sd or (nb + 2)], _cost=shape.get("_cost", 0) / N),
                                  dict(opts, **getattr(mod, "OPTS", {}))))
            else:
                tasks.append((hn, shape, dict(opts, **getattr(mod, "OPTS", {}))))
    # sizing aid (never used by a registered command; the run is reported as inconclusive): keep a stable 1/N sample
    sample_n = int(os.environ.get("SYMX_SAMPLE", "0") or 0)
    if sample_n > 1:
        import hashlib
        tasks = [t for t in tasks if int(hashlib.md5(json.dumps(t[1], sort_keys=True, default=str).encode()).hexdigest()[:8], 16) % sample_n == 0]
    # big instances first
    tasks.sort(key=lambda t: -t[1].get("_cost", 0))
    results = []
    ctxm = mp.get_context("fork")
    with ctxm.Pool(jobs, maxtasksperchild=50) as pool:
        # many tiny instances: hand them out in chunks (the dispatch of single tasks would dominate); the expensive ones come
        # first (sorted by cost) and still go out one by one because imap hands out chunks in order
        big = [t for t in tasks if t[1].get("_cost", 0) >= 5000]
        small = [t for t in tasks if t[1].get("_cost", 0) < 5000]
        its = [pool.imap_unordered(_run_one, big, chunksize=1)] if big else []
        if small:
            its.append(pool.imap_unordered(_run_one, small, chunksize=max(1, min(64, len(small) // (jobs * 8)))))
        prog = os.environ.get("SYMX_PROGRESS")
        for it in its:
            for r in it:
                results.append(r)
                if prog:
                    with open(prog, "a") as pf:
                        pf.write(f"{time.time() - t0:8.1f} {r['wall_s']:8.1f} {r['status']} {r.get('paths')} {json.dumps(r['shape'])}\n")
    agg = {"paths": 0, "forked_paths": 0, "infeasible": 0, "queries": 0, "solver_s": 0.0, "checks": 0, "forks": 0}
    covers, notes = {}, {}
    viols, known_hits, problems = [], [], []
    n_known_hits = 0
    samples = []
    recorded = []
    for r in results:
        if r["status"] != "done":
            problems.append(r)
            continue
        for k in agg:
            agg[k] += r[k]
        for k, v in r["covers"].items():
            covers[k] = covers.get(k, 0) + v
        for k, v in r["notes"].items():
            notes[k] = notes.get(k, 0) + v
        for v in r["violations"]:
            viols.append((r["module"], r["shape"], v))
        for v in r["known_hits"]:
            known_hits.append((r["module"], r["shape"], v))
        n_known_hits += r["n_known_hits"]
        if r["samples"] and len(samples) < 4:
            samples.append({"shape": r["shape"], "module": r["module"], **r["samples"][0]})
        recorded.extend(r.get("recorded", []))
    if os.environ.get("SYMX_TIMES"):
        print(f"  TIME cpu_total={sum(r_['wall_s'] for r_ in results):.0f}s tasks={len(results)} max={max((r_['wall_s'] for r_ in results), default=0):.0f}s", file=out)
        byshape = {}
        for r_ in results:
            sh_ = {k: v for k, v in r_["shape"].items() if not k.startswith("_")}
            key = json.dumps(sh_, sort_keys=True)
            byshape.setdefault(key, [0.0, 0, 0.0])
            byshape[key][0] += r_["wall_s"]
            byshape[key][1] += r_.get("paths", 0)
            byshape[key][2] = max(byshape[key][2], r_["wall_s"])
        for k, v in sorted(byshape.items(), key=lambda kv: -kv[1][0])[:25]:
            print(f"  TIME total={v[0]:.1f}s max={v[2]:.1f}s paths={v[1]} {k}", file=out)
    # coverage witnesses (vacuity guard)
    missing = []
    for hn, mod in mods.items():
        exp = mod.expect(tier, prop) if hasattr(mod, "expect") else getattr(mod, "EXPECT", [])
        for tag in exp:
            if not covers.get(tag):
                missing.append(f"{hn}:{tag}")
    # triage
    exit_code = EXIT_OK
    lines = []
    mine = [(m, s, v) for (m, s, v) in viols if v["label"].startswith(prop + ":")]
    others = [(m, s, v) for (m, s, v) in viols if not v["label"].startswith(prop + ":")]
    reported = 0
    replays_ok = 0
    os.makedirs(os.path.join(ROOT, "replays"), exist_ok=True)
    # replay a diverse selection: first one counterexample per (shape, label), then the rest, at most 24
    seen_keys, first, rest = set(), [], []
    for item in mine:
        k = (json.dumps({a: b for a, b in item[1].items() if not a.startswith("_")}, sort_keys=True), item[2]["label"])
        (rest if k in seen_keys else first).append(item)
        seen_keys.add(k)
    for i, (m, s, v) in enumerate((first + rest)[:24]):
        with ctxm.Pool(1) as pool:
            rp = pool.apply(_replay_worker, ((m, s, v),))
        repro = any(isinstance(rp.get(mode), list) and v["label"] in rp[mode] for mode in ("exact", "float"))
        path = os.path.join(ROOT, "replays", f"{prop}_{i}.json")
        with open(path, "w") as f:
            json.dump({"property": prop, "module": m, "shape": s, "violation": v, "replay_result": rp}, f, indent=1)
        if repro:
            replays_ok += 1
            reported += 1
            if reported <= 6:
                lines.append(f"VIOLATION property={prop} replay={path}")
                lines.append(f"  label={v['label']} shape={json.dumps(s)} detail={v.get('detail')}")
            exit_code = EXIT_VIOLATION
        else:
            problems.append({"status": "error", "error": f"counterexample for {v['label']} did not reproduce "
                             f"(encoding or stub wrong): {rp}", "shape": s, "module": m})
    # known findings re-observed
    seen_keys = {}
    for m, s, v in known_hits:
        seen_keys.setdefault(v["known_key"], (m, s, v))
    for key, (m, s, v) in sorted(seen_keys.items()):
        kf = known.get(key)
        if kf is None or kf.get("status") != "known" or kf.get("property") != prop:
            if kf is not None and kf.get("property") != prop and kf.get("status") == "known":
                continue  # belongs to another property's check
            # region is not (or no longer) listed as known: this is a violation
            with ctxm.Pool(1) as pool:
                rp = pool.apply(_replay_worker, ((m, s, v),))
            repro = any(isinstance(rp.get(mode), list) and v["label"] in rp[mode] for mode in ("exact", "float"))
            path = os.path.join(ROOT, "replays", f"{prop}_k_{key}.json")
            with open(path, "w") as f:
                json.dump({"property": prop, "module": m, "shape": s, "violation": v, "replay_result": rp}, f, indent=1)
            if not v["label"].startswith(prop + ":"):
                continue
            if repro:
                lines.append(f"VIOLATION property={prop} replay={path}")
                lines.append(f"  label={v['label']} (region {key}) shape={json.dumps(s)} detail={v.get('detail')}")
                exit_code = EXIT_VIOLATION
                reported += 1
            else:
                problems.append({"status": "error", "error": f"counterexample for {v['label']} did not reproduce: {rp}",
                                 "shape": s, "module": m})
        else:
            lines.append(f"KNOWN-FINDING: property={prop} {kf['what']}")
    if exit_code == EXIT_OK and (problems or missing):
        exit_code = EXIT_INCONCLUSIVE
    if sample_n > 1:
        problems.append({"status": "inconclusive", "error": f"SYMX_SAMPLE={sample_n}: sizing run over a sample, not a check", "module": "runner", "shape": None})
        if exit_code == EXIT_OK:
            exit_code = EXIT_INCONCLUSIVE
    wall = time.time() - t0
    funcs = []
    assumptions = []
    expl = []
    for hn, mod in mods.items():
        funcs += func_hashes(mod.functions() if hasattr(mod, "functions") else [])
        assumptions += list(getattr(mod, "ASSUMPTIONS", []))
        expl.append(getattr(mod, "EXPLANATION", hn))
    return {
        "exit": exit_code, "lines": lines, "agg": agg, "covers": covers, "notes": notes, "problems": problems,
        "missing": missing, "samples": samples, "wall": wall, "instances": len(tasks), "funcs": funcs,
        "assumptions": assumptions, "explanation": " | ".join(expl), "violations_reported": reported,
        "other_property_violations": sorted({v["label"] for _, _, v in others}),
        "known_keys_seen": sorted(seen_keys), "n_known_hits": n_known_hits, "replays_ok": replays_ok,
        "recorded": recorded, "instances_done": sum(1 for r in results if r["status"] == "done"),
        "bounds": {hn: (mod.bounds(tier, prop) if hasattr(mod, "bounds") else None) for hn, mod in mods.items()},
    }
