"""Translator validation (run at the start of every check): the np facade, the exact proxies and the SeedSequence model
are pushed through the repository's own test inputs and compared with real numpy on concrete values."""
from __future__ import annotations

import importlib.util  # noqa: F401
import math
from fractions import Fraction

import numpy as np


def _load_test_matrices():
    import ast
    import os
    src = open(os.path.join(os.environ.get("SYMX_REPO", "/repo"), "test/permanents/test_permanents.py")).read()
    tree = ast.parse(src)
    out = {}
    for node in tree.body:
        if isinstance(node, ast.Assign) and isinstance(node.targets[0], ast.Name) and node.targets[0].id.startswith(("W_MATRIX", "P_MATRIX", "PERMANENT")):
            code = compile(ast.Expression(node.value), "<t>", "eval")
            out[node.targets[0].id] = eval(code, {"np": np})
    return out


def facade_vs_numpy():
    """permanent_prob / fast_glynn_perm / quick_prob on the repo's test matrices: exact facade == numpy (1e-9)."""
    import infretis.classes.repex as rx
    from symx import core, npfacade
    from symx.core import qconst
    mats = _load_test_matrices()
    npfacade.uninstall(rx)
    st = rx.REPEX_state.__new__(rx.REPEX_state)
    st._offset, st.n, st._random_count = 0, 8, 0
    ref = {}
    for k in ("W_MATRIX1", "W_MATRIX2"):
        ref[k] = (np.asarray(st.permanent_prob(mats[k].copy()), dtype=float), float(st.fast_glynn_perm(mats[k].copy())))
    npfacade.install(rx, max=npfacade.symmax, min=npfacade.symmin)
    n = 0
    ctx = core.ConcreteCtx({}, [], mode="exact")

    def run(c):
        nonlocal n
        for k in ("W_MATRIX1", "W_MATRIX2"):
            W = mats[k]
            A = np.empty(W.shape, dtype=object)
            for idx in np.ndindex(W.shape):
                A[idx] = qconst(Fraction(float(W[idx])))
            P = st.permanent_prob(A.copy())
            perm = st.fast_glynn_perm(A.copy())
            Pf = np.array([[float(x) if not isinstance(x, (int, float)) else x for x in row] for row in P], dtype=float)
            assert np.allclose(Pf, ref[k][0], atol=1e-9), f"facade permanent_prob differs on {k}"
            assert np.allclose(Pf, mats[k.replace("W_", "P_")], atol=1e-6), f"permanent_prob differs from the test's reference {k}"
            assert math.isclose(float(perm), ref[k][1], rel_tol=1e-9), f"facade glynn differs on {k}"
            n += 2
    ctx.run(run)
    return n


def wf_weights_vs_numpy(seed=0, cases=200):
    """wirefence_weight_and_pick on random concrete order sequences: floats (real numpy) == exact proxies."""
    import random
    import infretis.classes.path as ipath
    import infretis.core.tis as tis
    from symx import core, npfacade
    from symx.core import qconst
    from symx.stubs import mk_path
    rnd = random.Random(seed)
    seqs = [[rnd.choice([-1.0, 0.0, 0.5, 1.0, 1.5, 2.0]) for _ in range(rnd.randint(1, 9))] for _ in range(cases)]
    npfacade.uninstall(ipath)
    npfacade.uninstall(tis)
    ref = [tis.wirefence_weight_and_pick(mk_path(s), 0.0, 1.0)[0] for s in seqs]
    npfacade.install(ipath)
    npfacade.install(tis, max=npfacade.symmax, min=npfacade.symmin)
    got = []
    ctx = core.ConcreteCtx({}, [], mode="exact")
    ctx.run(lambda c: got.extend(tis.wirefence_weight_and_pick(mk_path([qconst(Fraction(x)) for x in s]), qconst(0), qconst(1))[0]
                                 for s in seqs))
    assert got == ref, "facade wire-fencing weights differ from numpy run"
    return len(seqs)


def seedseq_model_vs_numpy():
    """the SeedSequence/BitGenerator model follows numpy's spawn-key bookkeeping."""
    from symx.rngmodel import SeedSeqModel, default_rng_model
    n = 0
    for seed in (0, 7, 12345):
        real = np.random.SeedSequence(seed)
        model = SeedSeqModel(seed)
        for step in (1, 2, 1):
            rc, mc = real.spawn(step), model.spawn(step)
            for a, b in zip(rc, mc):
                assert a.entropy == b.entropy and tuple(a.spawn_key) == tuple(b.spawn_key), (a, b)
                ga, gb = a.spawn(1)[0], b.spawn(1)[0]
                assert tuple(ga.spawn_key) == tuple(gb.spawn_key)
                n += 2
            assert real.n_children_spawned == model.n_children_spawned
        for c in (0, 3, 11):
            r = np.random.SeedSequence(entropy=seed, n_children_spawned=c).spawn(1)[0]
            m = SeedSeqModel(entropy=seed, n_children_spawned=c).spawn(1)[0]
            assert tuple(r.spawn_key) == tuple(m.spawn_key) == (c,)
            n += 1
        # numbers are a function of (entropy, spawn_key) only
        g1 = np.random.default_rng(np.random.SeedSequence(seed, spawn_key=(4,))).random()
        g2 = np.random.default_rng(np.random.SeedSequence(entropy=seed, n_children_spawned=4).spawn(1)[0]).random()
        assert g1 == g2
        # restoring bit_generator.state restores the stream whatever the seed sequence is
        a = np.random.default_rng(seed)
        a.random()
        st = a.bit_generator.state
        b = np.random.default_rng(np.random.SeedSequence(entropy=99, n_children_spawned=5))
        b.bit_generator.state = st
        assert a.random() == b.random()
        n += 2
    assert default_rng_model(3).bit_generator._seed_seq.ident == (3, ())
    return n


def executor_selfcheck():
    """the executor itself on a toy harness: path count is as computed by hand, a planted violation is found with a model
    that reproduces, and the hash-partitioned exploration covers exactly the paths of the unsplit one."""
    from symx import core

    def toy(ctx):
        x, y = ctx.real("x"), ctx.real("y")
        ctx.assume(ctx.rel(x, ">", 0))
        zone = 0 if y < 0 else (1 if y < x else 2)         # 3 zones
        k = ctx.choice(3, "k")                                # x 3 choices
        n = ctx.concretize(ctx.int("n", 0, 2))                # x 3 integers
        ctx.cover(f"z{zone}k{k}n{n}")
        ctx.check(not (zone == 1 and k == 2 and n == 1 and bool(2 * y == x)), "T:planted")

    full = core.Ctx()
    full.explore(toy, stop_on_violation=False)
    assert len(full.covers) == 27, f"toy harness: {len(full.covers)} zone/choice combinations instead of 27"
    assert len(full.violations) == 1, "planted violation not found exactly once"
    vals = full.violations[0].values
    assert 2 * vals["y"] == vals["x"] and vals["x"] > 0, "model of the planted violation does not satisfy it"
    cc = core.ConcreteCtx(vals, full.violations[0].choices)
    cc.run(toy)
    assert [v.label for v in cc.violations] == ["T:planted"], "planted violation does not replay"
    total, covers = 0, {}
    for i in range(4):
        part = core.Ctx(prefix=(i, 4, 3))
        part.explore(toy, stop_on_violation=False)
        total += part.paths
        for k, v in part.covers.items():
            covers[k] = covers.get(k, 0) + v
    # (cover counts of a sub-instance include paths it abandons at the partition test, so only the key sets are compared)
    assert total == full.paths and set(covers) == set(full.covers), f"partitioned exploration: {total} paths vs {full.paths}"
    return full.paths


def run_all():
    out = {"executor_toy_paths": executor_selfcheck()}
    out["facade_vs_numpy_cases"] = facade_vs_numpy()
    out["wf_weights_cases"] = wf_weights_vs_numpy()
    out["seedseq_model_cases"] = seedseq_model_vs_numpy()
    return out


if __name__ == "__main__":
    print(run_all())
