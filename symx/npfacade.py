"""A thin stand-in for the module global `np` of the module under analysis.

Everything is forwarded to real numpy except the entry points that force a machine dtype or need a
truth value of an array of proxies.  Arrays of proxies are real numpy object arrays; numpy itself does
indexing, slicing, insert, argsort (via __lt__), sum, multiply.reduce and in-place arithmetic element-wise.
The facade is validated against numpy on concrete inputs in symx/selftest.py on every run.
"""
from __future__ import annotations

import builtins

import numpy as np

from . import core
from .core import Q, qconst


def _is_obj(a):
    return isinstance(a, np.ndarray) and a.dtype == object


def _has_q(a):
    if isinstance(a, Q):
        return True
    if isinstance(a, np.ndarray):
        return a.dtype == object
    if isinstance(a, (list, tuple)):
        return builtins.any(_has_q(x) for x in a)
    return False


def _obj(a):
    if isinstance(a, np.ndarray) and a.dtype == object:
        return a
    if isinstance(a, Q):
        out = np.empty((), dtype=object)
        out[()] = a
        return out
    if isinstance(a, (list, tuple)) and _has_q(a):
        # build object array preserving nesting
        def shape_of(x):
            if isinstance(x, (list, tuple, np.ndarray)):
                return (len(x),) + (shape_of(x[0]) if len(x) else ())
            return ()
        shp = shape_of(a)
        out = np.empty(shp, dtype=object)
        for idx in np.ndindex(shp):
            x = a
            for i in idx:
                x = x[i]
            out[idx] = x
        return out
    return np.asarray(a)


def _boolarr(c):
    c = _obj(c)
    if c.dtype == object:
        out = np.empty(c.shape, dtype=bool)
        for idx in np.ndindex(c.shape):
            out[idx] = bool(c[idx])
        return out
    return c


class NPFacade:
    longdouble = np.longdouble
    float64 = np.float64
    ndarray = np.ndarray
    newaxis = np.newaxis
    pi = np.pi
    inf = np.inf
    nan = np.nan

    @property
    def random(self):
        return getattr(self, "_random_ns", np.random)


    def arctan2(self, a, b):
        if isinstance(a, Q) or isinstance(b, Q):
            return Angle(core._num(a), core._num(b))
        return np.arctan2(a, b)

    def copysign(self, a, b):
        if isinstance(a, Q) or isinstance(b, Q):
            mag = abs(a)
            return mag if b >= 0 else -mag
        return np.copysign(a, b)

    def sign(self, a):
        if isinstance(a, Q):
            return 1 if a > 0 else (-1 if a < 0 else 0)
        return np.sign(a)

    def floor(self, a):
        if isinstance(a, Q):
            return core.CUR.floor(a)
        return np.floor(a)

    def rad2deg(self, x):
        if isinstance(x, Angle):
            return x.scaled(180)
        return np.rad2deg(x)

    def mean(self, a, axis=None, **kw):
        a0 = _obj(a)
        if a0.dtype == object:
            n = a0.shape[axis] if axis is not None else a0.size
            return np.sum(a0, axis=axis) / n
        return np.mean(a, axis=axis, **kw)

    def __init__(self, exact=True):
        self.exact = exact

    def __getattr__(self, k):
        return getattr(np, k)

    # -- constructors: exact 0/1 instead of machine floats
    def zeros(self, shape, dtype=None, **kw):
        if dtype in (int, "int", bool):
            return np.zeros(shape, dtype=dtype)
        a = np.empty(shape, dtype=object)
        a.fill(qconst(0))
        return a

    def ones(self, shape, dtype=None, **kw):
        a = np.empty(shape, dtype=object)
        a.fill(qconst(1))
        return a

    def eye(self, n, dtype=None, **kw):
        a = self.zeros((n, n))
        for i in range(n):
            a[i, i] = qconst(1)
        return a

    def array(self, a, dtype=None, **kw):
        if _has_q(a):
            return _obj(a).copy()
        if isinstance(a, (list, tuple)) and a and builtins.all(isinstance(x, str) for x in a) and core.CUR is not None \
                and getattr(core.CUR, "symbolic", False) | (getattr(core.CUR, "mode", "") == "exact"):
            out = np.empty(len(a), dtype=object)
            for i, x in enumerate(a):
                out[i] = core.parse_number(x)
            return out
        if dtype in ("longdouble", np.longdouble, float, "float64", np.float64) and core.CUR is not None:
            arr = np.asarray(a, dtype=np.float64)
            out = np.empty(arr.shape, dtype=object)
            for idx in np.ndindex(arr.shape):
                out[idx] = core._num(float(arr[idx]))
            return out
        return np.array(a, dtype=dtype, **kw)

    def asarray(self, a, dtype=None, **kw):
        if _has_q(a):
            return _obj(a)
        return np.asarray(a, dtype=dtype, **kw)

    # -- truth-valued entry points
    def where(self, *a):
        if len(a) == 3:
            c = _boolarr(a[0])
            x, y = a[1], a[2]
            if _has_q(x) or _has_q(y):
                x = np.broadcast_to(_obj(x), c.shape)
                y = np.broadcast_to(_obj(y), c.shape)
                out = np.empty(c.shape, dtype=object)
                for idx in np.ndindex(c.shape):
                    out[idx] = x[idx] if c[idx] else y[idx]
                return out
            return np.where(c, x, y)
        return np.where(_boolarr(a[0]))

    def all(self, a, **kw):
        return bool(np.all(_boolarr(a), **kw)) if not kw else np.all(_boolarr(a), **kw)

    def any(self, a, **kw):
        return bool(np.any(_boolarr(a), **kw)) if not kw else np.any(_boolarr(a), **kw)

    def _arg(self, a, axis, better):
        a = _obj(a)
        if a.dtype != object:
            raise TypeError
        if a.size and isinstance(a.flat[0], (bool, np.bool_)):
            b = _boolarr(a)
            return None, b
        if axis is None:
            flat = list(a.flat)
            best = 0
            for i in range(1, len(flat)):
                if better(flat[i], flat[best]):
                    best = i
            return best, None
        if a.ndim == 2 and axis == 1:
            out = np.zeros(a.shape[0], dtype=int)
            for r in range(a.shape[0]):
                best = 0
                for i in range(1, a.shape[1]):
                    if better(a[r, i], a[r, best]):
                        best = i
                out[r] = best
            return out, None
        if a.ndim == 2 and axis == 0:
            return self._arg(a.T, 1, better)
        raise NotImplementedError("arg* on this shape")

    def argmax(self, a, axis=None, **kw):
        if not _has_q(a) and not _is_obj(_obj(a)):
            return np.argmax(a, axis=axis)
        r, b = self._arg(a, axis, lambda x, y: x > y)
        return np.argmax(b, axis=axis) if b is not None else r

    def argmin(self, a, axis=None, **kw):
        if not _has_q(a) and not _is_obj(_obj(a)):
            return np.argmin(a, axis=axis)
        r, b = self._arg(a, axis, lambda x, y: x < y)
        return np.argmin(b, axis=axis) if b is not None else r

    def count_nonzero(self, a, axis=None):
        a = _obj(a)
        if a.dtype == object:
            return np.count_nonzero(_boolarr(a != 0), axis=axis)
        return np.count_nonzero(a, axis=axis)

    def allclose(self, a, b, **kw):
        a = _obj(a)
        if a.dtype == object or _has_q(b):
            b = np.broadcast_to(_obj(b), a.shape)
            return builtins.all(bool(a[idx] == b[idx]) for idx in np.ndindex(a.shape))
        return np.allclose(a, b, **kw)

    def isclose(self, a, b, **kw):
        if _has_q(a) or _has_q(b):
            return a == b
        return np.isclose(a, b, **kw)

    def max(self, a, axis=None, **kw):
        a = _obj(a)
        if a.dtype != object:
            return np.max(a, axis=axis, **kw)
        if axis is not None:
            raise NotImplementedError
        m = None
        for x in a.flat:
            if m is None or x > m:
                m = x
        return m

    amax = max

    def min(self, a, axis=None, **kw):
        a = _obj(a)
        if a.dtype != object:
            return np.min(a, axis=axis, **kw)
        m = None
        for x in a.flat:
            if m is None or x < m:
                m = x
        return m

    amin = min

    def sum(self, a, axis=None, dtype=None, **kw):
        a = _obj(a)
        if a.dtype == object:
            return np.sum(a, axis=axis)
        return np.sum(a, axis=axis, dtype=dtype, **kw)

    def nan_to_num(self, a, **kw):
        a0 = _obj(a)
        if a0.dtype == object:
            return a0
        return np.nan_to_num(a, **kw)

    def abs(self, a):
        if isinstance(a, Q) and not a.is_const():
            return LazyAbs(a)
        a0 = _obj(a)
        if a0.dtype == object:
            if a0.ndim == 0:
                return abs(a0[()])
            out = np.empty(a0.shape, dtype=object)
            for idx in np.ndindex(a0.shape):
                out[idx] = abs(a0[idx])
            return out
        return np.abs(a)

    def sqrt(self, a):
        if isinstance(a, Q):
            return core.CUR.sqrt(a)
        a0 = _obj(a)
        if a0.dtype == object:
            out = np.empty(a0.shape, dtype=object)
            for idx in np.ndindex(a0.shape):
                out[idx] = core.CUR.sqrt(a0[idx])
            return out if out.ndim else out[()]
        return np.sqrt(a)

    def exp(self, a):
        if isinstance(a, Q):
            return core.CUR.exp(a)
        return np.exp(a)

    def divmod(self, a, b):
        if isinstance(a, Q):
            a = int(a)
        return np.divmod(a, b)

    def mod(self, a, b):
        if isinstance(a, Q):
            a = int(a)
        return np.mod(a, b)

    def einsum(self, subs, *ops, **kw):
        if builtins.any(_has_q(o) or _is_obj(_obj(o)) for o in ops):
            if subs.replace(" ", "") == "ij,ik->jk" and len(ops) == 2:
                a, b = _obj(ops[0]), _obj(ops[1])
                out = np.empty((a.shape[1], b.shape[1]), dtype=object)
                for j in range(a.shape[1]):
                    for k in range(b.shape[1]):
                        tot = qconst(0)
                        for i in range(a.shape[0]):
                            tot = tot + a[i, j] * b[i, k]
                        out[j, k] = tot
                return out
            raise NotImplementedError("einsum " + subs)
        return np.einsum(subs, *ops, **kw)

    def outer(self, a, b):
        a0, b0 = _obj(a).ravel(), _obj(b).ravel()
        if a0.dtype == object or b0.dtype == object:
            out = np.empty((len(a0), len(b0)), dtype=object)
            for i in range(len(a0)):
                for j in range(len(b0)):
                    out[i, j] = a0[i] * b0[j]
            return out
        return np.outer(a, b)

    def dot(self, a, b):
        a0, b0 = _obj(a), _obj(b)
        if a0.dtype == object or b0.dtype == object:
            if a0.ndim == 1 and b0.ndim == 1:
                tot = qconst(0)
                for x, y in zip(a0, b0):
                    tot = tot + x * y
                return tot
            return np.dot(a0.astype(object), b0.astype(object))
        return np.dot(a, b)

    def cross(self, a, b):
        a0, b0 = _obj(a), _obj(b)
        if a0.dtype == object or b0.dtype == object:
            out = np.empty(3, dtype=object)
            out[0] = a0[1] * b0[2] - a0[2] * b0[1]
            out[1] = a0[2] * b0[0] - a0[0] * b0[2]
            out[2] = a0[0] * b0[1] - a0[1] * b0[0]
            return out
        return np.cross(a, b)

    def rint(self, a):
        a0 = _obj(a)
        if a0.dtype == object:
            out = np.empty(a0.shape, dtype=object)
            for idx in np.ndindex(a0.shape):
                out[idx] = core.CUR.rint_enum(a0[idx])
            return out if out.ndim else out[()]
        if isinstance(a, Q):
            return core.CUR.rint_enum(a)
        return np.rint(a)


class LazyAbs:
    """|x| whose comparisons expand to the two linear cases (forks only where the sign matters)."""

    def __init__(self, x):
        self.x = x

    def __gt__(self, c):
        return (self.x > c) or (self.x < -c)

    def __ge__(self, c):
        return (self.x >= c) or (self.x <= -c)

    def __lt__(self, c):
        return (self.x < c) and (self.x > -c)

    def __le__(self, c):
        return (self.x <= c) and (self.x >= -c)

    def _val(self):
        return abs(self.x)

    def __add__(self, o):
        return self._val() + o

    __radd__ = __add__

    def __mul__(self, o):
        return self._val() * o

    __rmul__ = __mul__

    def __sub__(self, o):
        return self._val() - o

    def __rsub__(self, o):
        return o - self._val()

    def __truediv__(self, o):
        return self._val() / o


class Angle:
    """opaque value of arctan2(a, b) followed by recorded affine operations; never approximated.
    Two angles are the same iff their argument pairs are equal as exact expressions and the same operations followed."""

    def __init__(self, a, b, ops=()):
        self.a, self.b, self.ops = a, b, tuple(ops)

    def __lt__(self, other):
        if other == 0 and not self.ops:
            return self.a < 0          # atan2(a, b) < 0  <=>  a < 0
        raise core.Inconclusive("ordering of symbolic angles")

    def __add__(self, other):
        return Angle(self.a, self.b, self.ops + (("add", float(other)),))

    __iadd__ = __add__

    def scaled(self, k):
        return Angle(self.a, self.b, self.ops + (("scale", k),))

    def same(self, other):
        return isinstance(other, Angle) and self.ops == other.ops and bool(self.a == other.a) and bool(self.b == other.b)

    def negated(self, other):
        return (isinstance(other, Angle) and not self.ops and not other.ops and bool(self.a == -other.a)
                and bool(self.b == other.b))


class _Linalg:
    @staticmethod
    def norm(v):
        v0 = _obj(v)
        if v0.dtype == object:
            tot = qconst(0)
            for x in v0.flat:
                tot = tot + x * x
            return core.CUR.sqrt(tot)
        return np.linalg.norm(v)


NPFacade.linalg = _Linalg()


def install(module, exact=True, **extra):
    """bind a facade to `module.np` and override builtins in the module namespace."""
    if not hasattr(module, "_symx_saved"):
        module._symx_saved = {"np": module.__dict__.get("np")}
    module.np = NPFacade(exact)
    for k, v in extra.items():
        if k not in module._symx_saved:
            module._symx_saved[k] = module.__dict__.get(k, _MISSING)
        setattr(module, k, v)


_MISSING = object()


def uninstall(module):
    saved = getattr(module, "_symx_saved", None)
    if not saved:
        return
    for k, v in saved.items():
        if v is _MISSING:
            if k in module.__dict__:
                delattr(module, k)
        else:
            setattr(module, k, v)
    del module._symx_saved


def symmax(*args, **kw):
    it = args[0] if len(args) == 1 else args
    key = kw.get("key")
    m = None
    for x in it:
        if m is None or (key(x) > key(m) if key else x > m):
            m = x
    if m is None:
        if "default" in kw:
            return kw["default"]
        raise ValueError("max() arg is an empty sequence")
    return m


def symmin(*args, **kw):
    it = args[0] if len(args) == 1 else args
    m = None
    for x in it:
        if m is None or x < m:
            m = x
    if m is None:
        raise ValueError("min() arg is an empty sequence")
    return m


def symint(x=0, *a):
    """int() for the analysed module: floor towards zero of a symbolic non-negative value becomes a fresh Int."""
    if isinstance(x, Q):
        if x.is_const():
            return int(x.const())
        ctx = core.CUR
        if ctx.is_intvalued(x):
            return x
        # truncation toward zero
        if x >= 0:
            return ctx.floor(x)
        return -ctx.floor(-x)
    return builtins.int(x, *a)
