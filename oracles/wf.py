"""Independent definitions for C10, written from the property text (not from the code).

Zones of an order value o w.r.t. (left, right):  'L' o < left ; 'M' left <= o < right ; 'R' o >= right.
A *run* is a maximal block of consecutive 'M' frames that has a predecessor frame and a successor frame in the
path.  It counts unless it was entered from 'R' and left to 'R'.
"""


def zones(orders, left, right):
    z = []
    for o in orders:
        if o < left:
            z.append("L")
        elif o >= right:
            z.append("R")
        else:
            z.append("M")
    return z


def runs(orders, left, right):
    """list of (first_M_index, last_M_index, pred_zone, succ_zone) of the counting runs, in path order."""
    z = zones(orders, left, right)
    out = []
    i = 0
    n = len(z)
    while i < n:
        if z[i] != "M":
            i += 1
            continue
        j = i
        while j + 1 < n and z[j + 1] == "M":
            j += 1
        if i > 0 and j < n - 1:
            pred, succ = z[i - 1], z[j + 1]
            if not (pred == "R" and succ == "R"):
                out.append((i, j, pred, succ))
        i = j + 1
    return out


def wf_weight(orders, left, right):
    return sum(j - i + 1 for i, j, _, _ in runs(orders, left, right))


def side(o, lo, hi):
    if o <= lo:
        return "L"
    if o >= hi:
        return "R"
    return None


def ha_weight(orders, lam0, lam_i, cap, move):
    """high-acceptance weight of compute_weight: wf frame count, doubled when the path connects the two sides."""
    w = wf_weight(orders, lam_i, cap) if move == "wf" else 1
    if move in ("wf", "ss") and side(orders[0], lam0, cap) != side(orders[-1], lam0, cap):
        w = 2 * w
    return w


def cv_vector(orders, interfaces, moves, lambda_minus_one, cap, minus):
    mx = orders[0]
    for o in orders[1:]:
        if o > mx:
            mx = o
    if minus:
        ref = interfaces[0] if lambda_minus_one is False else lambda_minus_one
        return (1 if ref <= mx else 0,)
    out = []
    for idx, lam in enumerate(interfaces[:-1]):
        if moves[idx + 1] == "wf":
            out.append(ha_weight(orders, interfaces[0], lam, cap if cap is not None else interfaces[-1], "wf"))
        else:
            out.append(1 if lam <= mx else 0)
    out.append(0)
    return tuple(out)
