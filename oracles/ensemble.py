"""Validity of a path in a path ensemble, written from the property text of C09.

ens: dict with left, mid, right (left may be -inf), start (set of 'L'/'R')."""


def side_strict(o, left, right):
    """'L' strictly below left, 'R' strictly above right, else None (inside, boundaries included)."""
    if o < left:
        return "L"
    if o > right:
        return "R"
    return None


def side_end(o, left, right):
    """classification of an END frame. The code base has two conventions at exact equality: the engines' stop rule
    is strict (o < left / o > right), Path.get_start_point/get_end_point are not (o <= left / o >= right). An end frame
    exactly on an interface satisfies the second; the oracle accepts it (weakest consistent reading, no alarm on a
    measure-zero convention clash). Interior frames must lie in the closed interval."""
    if o <= left:
        return "L"
    if o >= right:
        return "R"
    return None


def valid(orders, left, mid, right, start, maxlength=None):
    """(ok, reason). A valid path: starts outside on an allowed side, ends outside, stays inside in between,
    crosses the ensemble's interface (unless it may start on both sides), respects the length limit."""
    n = len(orders)
    if n < 3:
        return False, "shorter than 3 frames"
    s0 = side_end(orders[0], left, right)
    if s0 is None or s0 not in start:
        return False, f"first frame side {s0} not in {sorted(start)}"
    if side_end(orders[-1], left, right) is None:
        return False, "last frame not outside"
    for k, o in enumerate(orders[1:-1], start=1):
        if side_strict(o, left, right) is not None:
            return False, f"interior frame {k} outside"
    if start != {"L", "R"}:
        mn = mx = orders[0]
        for o in orders[1:]:
            if o < mn:
                mn = o
            if o > mx:
                mx = o
        if not (mn < mid and mid <= mx):
            return False, "does not cross the ensemble's interface"
    if maxlength is not None and not (n <= maxlength):
        return False, "longer than the limit"
    return True, "ok"
