"""H14 -- C14 (one clause of the store side): energies that are present are stored as numbers, missing ones as 'nan'."""
from __future__ import annotations

import builtins
import logging
import math

import infretis.classes.formatter as ifmt
from symx import core, npfacade
from symx.core import Q

logging.disable(logging.CRITICAL)

PROPERTIES = ["C14"]
EXPLANATION = ("H14: EnergyFormatter.apply_format executed on symbolic energy values (any real, including exactly 0) and on "
               "absent / None terms: the decision 'present or missing' is a branch the solver explores; a present value must never "
               "be written as the missing marker, each term must land in its own column. The decimal rendering itself "
               "(str.format) is outside.")
ASSUMPTIONS = ["str.format of a float is trusted; only which value goes to which column / whether it is written as missing is decided"]


class TaggedFloat(float):
    """a float that remembers which symbolic value it stands for (str.format needs a real float)."""

    def __new__(cls, src, idx):
        obj = super().__new__(cls, 1000.0 + idx)
        obj.src = src
        return obj


_COUNTER = []


def sym_float(x):
    if isinstance(x, Q):
        _COUNTER.append(x)
        return TaggedFloat(x, len(_COUNTER))
    return builtins.float(x)


def install():
    npfacade.install(ifmt, float=sym_float)


def functions():
    return [ifmt.EnergyFormatter.apply_format]


def bounds(tier, prop):
    return {"terms": "vpot, ekin, etot, temp each present (symbolic real) / None / absent", "outside": "decimal rendering, the load side"}


def instances(tier, prop):
    import itertools
    out = []
    for pat in itertools.product(("sym", "none", "absent"), repeat=4):
        out.append({"pattern": list(pat), "_cost": 1})
    return out


EXPECT = ["energy:present-zero", "energy:present-nonzero", "energy:missing"]


def run_instance(ctx, sh):
    _COUNTER.clear()
    fmt = ifmt.EnergyFormatter()
    energy = {}
    syms = {}
    for key, kind in zip(fmt.ENERGY_TERMS, sh["pattern"]):
        if kind == "sym":
            syms[key] = ctx.real(f"E_{key}")
            energy[key] = syms[key]
        elif kind == "none":
            energy[key] = None
    try:
        line = fmt.apply_format(7, energy)
    except core.Inconclusive:
        raise
    except (core._Abort, core._Stop, core._Skip):
        raise
    except Exception as e:
        core.reraise_if_proxy_limitation(e)
        ctx.fail("C14:energy-line-no-exception", repr(e))
    fields = line.split()
    ctx.check(len(fields) == 5 and fields[0] == "7", "C14:energy-line-has-step-and-four-terms", line)
    k = 0
    for i, key in enumerate(fmt.ENERGY_TERMS):
        f = fields[i + 1]
        if key in syms:
            k += 1
            is_nan = f.lower() == "nan"
            ctx.check(not is_nan, "C14:present-energy-is-not-stored-as-missing", f"{key} written as {f!r}")
            if not is_nan:
                # the tagged float for this term is the k-th converted value and stands for this term's symbol
                src = _COUNTER[k - 1] if k - 1 < len(_COUNTER) else None
                ctx.check(src is syms[key] and abs(builtins.float(f) - (1000.0 + k)) < 1e-3, "C14:energy-term-in-its-own-column",
                          f"{key}: {f}")
            ctx.cover("energy:present-zero" if syms[key] == 0 else "energy:present-nonzero")
        else:
            ctx.check(f.lower() == "nan", "C14:missing-energy-is-stored-as-nan", f"{key}: {f}")
            ctx.cover("energy:missing")
