"""H02 -- C02: swap probabilities equal the exact permanent ratios."""
from __future__ import annotations

import itertools

import numpy as np

import infretis.classes.repex as rx
from symx import core, npfacade
from symx.core import Q, perm, qconst

PROPERTIES = ["C02"]
EXPLANATION = ("H02: REPEX_state.inf_retis (+ find_blocks, quick_prob, permanent_prob, fast_glynn_perm) executed on weight "
               "matrices whose non-zero plus-path weights are symbolic positive reals; the executor forks on every comparison "
               "the code makes between weights (equal-weight test, row maxima, != 0), so all orderings and coincidences are "
               "covered; the result is compared entry-wise with W_ij*perm(minor)/perm(W_idle) computed by an independent "
               "Leibniz expansion in the same exact arithmetic (a polynomial identity per entry).")
ASSUMPTIONS = [
    "exact real arithmetic stands for longdouble (rounding outside the claim)",
    "reachable family: minus path (1,0,...,0) in slot 0, plus rows are staircase rows (non-zero on columns 1..reach); "
    "hole patterns are excluded as find_blocks documents",
    "at least one ensemble idle and the idle block admits a perfect matching (invariants I0/I2 of HRX)",
    "blocks larger than 12 (random_prob, Monte Carlo) are outside the bound",
]


def install():
    npfacade.install(rx, max=npfacade.symmax, min=npfacade.symmin)


def uninstall():
    npfacade.uninstall(rx)


def functions():
    R = rx.REPEX_state
    return [R.inf_retis, R.find_blocks, R.quick_prob, R.permanent_prob, R.fast_glynn_perm]


def bounds(tier, prop):
    if tier == "quick":
        return {"ensembles k (matrix (k+1)^2 with ghost)": "2..4 fully symbolic weights; 5..6 row-constant weights",
                "lock subsets": "all with >= 1 idle ensemble and a perfect matching on the idle block",
                "reach patterns": "all (k-1)^(k-1) assignments of staircase rows to slots",
                "outside": "k > 6; hole patterns; random_prob"}
    return {"ensembles k": "2..4 fully symbolic; 5 with <= 2 fully symbolic rows (others row-constant); 5..6 row-constant; 5..6 unit; 7 unit with non-decreasing reach vectors only",
            "lock subsets": "all with >= 1 idle ensemble and a perfect matching on the idle block",
            "reach patterns": "all assignments of staircase rows to slots",
            "outside": "k > 7; hole patterns; random_prob"}


def _hall_ok(k, pat, locks):
    idle = [i for i in range(k) if not locks[i]]

    def w(row, c):
        if row == 0:
            return c == 0
        return 1 <= c <= pat[row - 1]
    sub = [[w(i, j) for j in idle] for i in idle]
    n = len(sub)
    return any(all(sub[i][p[i]] for i in range(n)) for p in itertools.permutations(range(n)))


def _enum(k, mode, nsym=None, sorted_only=False):
    out = []
    pats = itertools.combinations_with_replacement(range(1, k), k - 1) if sorted_only else itertools.product(range(1, k), repeat=k - 1)
    for pat in pats:
        for locks in itertools.product([0, 1], repeat=k):
            if all(locks):
                continue
            if not _hall_ok(k, pat, locks):
                continue
            n_idle = k - sum(locks)
            sh = {"kind": "prob", "k": k, "pat": list(pat), "locks": list(locks), "mode": mode,
                  "_cost": (4 ** n_idle if mode == "full" else 2 ** n_idle) * k}
            if nsym is not None:
                sh["nsym"] = nsym
            out.append(sh)
    return out


def instances(tier, prop):
    out = []
    for k in (2, 3, 4):
        out += _enum(k, "full")
    for k in (2, 3, 4):
        out += _enum(k, "unit")
    for k in (5, 6):
        out += _enum(k, "rowconst") if tier == "thorough" or k == 5 else []
    if tier == "thorough":
        out += _enum(5, "mixed", nsym=2)
        out += _enum(7, "unit", sorted_only=True)
    else:
        out += _enum(5, "unit") + _enum(6, "unit")
    # (f): the three code paths agree on row-constant staircase blocks
    for k in range(2, 6 if tier == "quick" else 7):
        for pat in itertools.combinations_with_replacement(range(1, k + 1), k):
            if all(pat[i] >= i + 1 for i in range(k)) and pat[-1] == k:
                out.append({"kind": "agree", "n": k, "pat": list(pat), "_cost": 3 ** k})
    return out


EXPECT = ["path:equal-fast", "path:blocks-quick", "path:blocks-permanent", "path:block-size-1", "locks:some", "locks:none",
          "agree:compared"]


def run_instance(ctx, shape):
    if shape["kind"] == "agree":
        return _agree(ctx, shape)
    return _prob(ctx, shape)


class _Spy:
    """records which code paths inf_retis took (coverage witnesses), delegates to the real methods."""

    def __init__(self, st, ctx):
        self.st, self.ctx = st, ctx
        cls = type(st)
        self.real_quick, self.real_perm = cls.quick_prob, cls.permanent_prob

    def __enter__(self):
        st, ctx = self.st, self.ctx
        rq, rp = self.real_quick, self.real_perm

        def quick(arr):
            st._took.add("quick")
            return rq(st, arr)

        def permp(arr):
            st._took.add("permanent")
            return rp(st, arr)
        st._took = set()
        st.quick_prob = quick
        st.permanent_prob = permp
        return self

    def __exit__(self, *a):
        del self.st.quick_prob
        del self.st.permanent_prob


def _bare_state(n):
    st = rx.REPEX_state.__new__(rx.REPEX_state)
    st._offset = 1
    st.n = n
    st._random_count = 0
    return st


def _prob(ctx, sh):
    k, pat, locks, mode = sh["k"], sh["pat"], sh["locks"], sh["mode"]
    n = k + 1
    W = np.empty((n, n), dtype=object)
    W.fill(qconst(0))
    W[0, 0] = qconst(1)
    for j in range(1, k):
        rowvar = None
        full = mode == "full" or (mode == "mixed" and j <= sh.get("nsym", 0))
        for c in range(1, 1 + pat[j - 1]):
            if mode == "unit":
                W[j, c] = qconst(1)
            elif full:
                W[j, c] = ctx.real(f"w{j}_{c}", positive=True)
            else:
                if rowvar is None:
                    rowvar = ctx.real(f"w{j}", positive=True)
                W[j, c] = rowvar
    lk = np.array(list(locks) + [1.0])
    st = _bare_state(n)
    idle = [i for i in range(k) if not locks[i]]
    try:
        with _Spy(st, ctx):
            P = st.inf_retis(abs(W), lk)
            took = set(st._took)
    except AssertionError as e:
        ctx.fail("C02:doubly-stochastic (repo assertion)", repr(e))
        return
    except Exception as e:
        core.reraise_if_proxy_limitation(e)
        ctx.fail("C02:no-exception", repr(e))
        return
    ctx.check(P.shape == (n, n), "C02:shape")
    sub = [[W[i, j] for j in idle] for i in idle]
    pw = perm(sub)
    ctx.check(pw > 0, "C02:harness-precondition-perfect-matching")
    for a, i in enumerate(idle):
        for b, j in enumerate(idle):
            minor = [[W[x, y] for y in idle if y != j] for x in idle if x != i]
            ok = P[i, j] * pw == W[i, j] * perm(minor)
            ctx.check(ok, "C02:P==W*perm(minor)/perm(W)", lambda: f"entry ({i},{j}) idle {idle}")
            if not W[i, j].n.t:
                ctx.check(P[i, j] == 0, "C02:zero-where-weight-zero")
    for i in range(n):
        for j in range(n):
            if i in idle and j in idle:
                continue
            ctx.check(P[i, j] == 0, "C02:zero-on-busy", lambda: f"entry ({i},{j})")
    for i in idle:
        ctx.check(sum(P[i, j] for j in idle) == 1, "C02:row-sums")
        ctx.check(sum(P[j, i] for j in idle) == 1, "C02:column-sums")
    if "quick" in took and "permanent" not in took:
        ctx.cover("path:equal-fast" if mode in ("unit", "rowconst") else "path:blocks-quick")
    if "permanent" in took:
        ctx.cover("path:blocks-permanent")
    if "quick" in took and mode == "full":
        ctx.cover("path:blocks-quick")
    if len(idle) >= 2 and any(sum(1 for c in idle if W[r, c].n.t) == 1 for r in idle if r):
        ctx.cover("path:block-size-1")
    ctx.cover("locks:some" if any(locks) else "locks:none")


def _agree(ctx, sh):
    """quick_prob, permanent_prob and the permanent ratio agree on a row-constant staircase block."""
    n, pat = sh["n"], sh["pat"]
    st = _bare_state(n + 2)
    ws = [ctx.real(f"w{i}", positive=True) for i in range(n)]
    A = np.empty((n, n), dtype=object)
    A.fill(qconst(0))
    for i in range(n):
        for c in range(pat[i]):
            A[i, c] = ws[i]
    try:
        Pq = st.quick_prob(A.copy())
        Pp = st.permanent_prob(A.copy())
    except Exception as e:
        core.reraise_if_proxy_limitation(e)
        ctx.fail("C02:no-exception", repr(e))
        return
    rows = [[A[i, j] for j in range(n)] for i in range(n)]
    pw = perm(rows)
    for i in range(n):
        for j in range(n):
            minor = [[A[x, y] for y in range(n) if y != j] for x in range(n) if x != i]
            ref_ok = Pp[i, j] * pw == A[i, j] * perm(minor)
            ctx.check(ref_ok, "C02:permanent_prob==ratio", lambda: f"({i},{j}) pat {pat}")
            ctx.check(Pq[i, j] == Pp[i, j], "C02:quick_prob==permanent_prob", lambda: f"({i},{j}) pat {pat}")
    ctx.cover("agree:compared")
