"""H09 -- C09: accepted paths belong to their ensemble; rejections change nothing; the shooting acceptance rule."""
from __future__ import annotations

import logging

import infretis.classes.path as ipath
import infretis.core.tis as tis
from infretis.classes.engines.enginebase import EngineBase
from oracles import ensemble as E
from symx import core, npfacade
from symx.stubs import InvRng, ScriptEngine, mk_path, orders_of, tags_of

logging.disable(logging.CRITICAL)

PROPERTIES = ["C09"]
EXPLANATION = ("H09: run_md -> select_shoot -> shoot / wire_fencing (prepare_shooting_point, check_kick, shoot_backwards, "
               "extender, subt_acceptance, paste_paths, check_interfaces, calc_cv_vector) executed with a script engine that "
               "feeds fresh symbolic order values through the REAL EngineBase.add_to_path; old path, interfaces, cap, integer "
               "length limit, shooting index and the random draws are symbolic. Every feasible combination of zone outcomes "
               "is a separate solver-decided path; acceptance is compared with an independent membership predicate and with "
               "the n_old/n_new Metropolis rule computed from the unbounded ('natural') trajectories.")
ASSUMPTIONS = [
    "engine obeys the C12 contract (first frame is the given phase point; frames are added through add_to_path)",
    "order parameter is position-dependent (frame 0 of backward and forward propagation carry the shooting point's order); "
    "a velocity-dependent kick is modelled by a fresh symbolic order value of the shooting point",
    "rgen.random() in (0,1), modelled as 1/x with x>1; rgen.integers(a,b) in [a,b)",
    "old path valid in its ensemble; length limit an integer in [3, Mmax]",
    "floats as reals: int((L-2)/r) is the exact floor",
]

KNOWN_MAXLEN = "C09-crossing-at-length-limit"
KNOWN_ONCAP = "C09-wf-frame-exactly-on-cap"


def install():
    npfacade.install(ipath)
    npfacade.install(tis, int=npfacade.symint, max=npfacade.symmax, min=npfacade.symmin)
    tis.log_mdlogs = lambda d: None


def uninstall():
    npfacade.uninstall(ipath)
    npfacade.uninstall(tis)
    tis.log_mdlogs = lambda d: None


def functions():
    P = ipath.Path
    return [tis.run_md, tis.select_shoot, tis.shoot, tis.shoot_backwards, tis.prepare_shooting_point, tis.check_kick,
            tis.wire_fencing, tis.extender, tis.subt_acceptance, tis.wirefence_weight_and_pick, tis.compute_weight,
            tis.calc_cv_vector, ipath.paste_paths, P.check_interfaces, P.get_shooting_point, P.append,
            EngineBase.add_to_path]


def bounds(tier, prop):
    if tier == "quick":
        return {"old path frames": "3..4 (sh), 3 (wf)", "length limit": "symbolic integer in [3, 5] (sh), [3,4] (wf)",
                "fresh frames per propagation": "limit-2 (sh), limit-1 (wf): never binding", "n_jumps": "1",
                "outside": "longer old paths / larger limits / n_jumps >= 2"}
    return {"old path frames": "3..5 (sh), 3..4 (wf)", "length limit": "symbolic integer in [3, 6] for [i+] ensembles with old length <= 4, [3, 5] otherwise (sh); wf: fixed 9 with <= 2 new frames per propagation, and symbolic [3,4]",
            "fresh frames per propagation": "never binding", "n_jumps": "1", "outside": "larger sizes; n_jumps >= 2"}


def instances(tier, prop):
    out = []
    quick = tier == "quick"
    for ens in ("plus", "minus", "minus_lm1"):
        for Lo in ((3, 4) if quick else (3, 4, 5)):
            for mode in ("plain", "re", "ld", "allowmax"):
                for kick in (False, True):
                    Mmax = 5 if (quick or Lo == 5 or ens != "plus") else 6
                    if not quick and Lo == 5 and (kick or mode != "plain") and ens != "plus":
                        continue
                    out.append({"kind": "sh", "ens": ens, "Lo": Lo, "Mmax": Mmax, "mode": mode, "kick": kick,
                                "_cost": 9 ** Mmax * (3 if kick else 1) * Lo,
                                "_splitbits": (2 if Lo >= 4 else 0) if quick else (6 if Mmax == 6 else 4)})
    # wf-A: generous fixed limit, every propagation ends within `nfresh` new frames (paths that would need more are
    #       outside the bound); wf-B: small limit, frames never binding (limit interplay, FTX).
    for Lo in ((3,) if quick else (3, 4)):
        for cap in (False, True):
            for nj in (1,):
                # (two jumps were measured at about 2.5 core-hours for old length 3 alone: outside both tiers)
                out.append({"kind": "wf", "Lo": Lo, "M": 9, "nfresh": 2, "cap": cap, "n_jumps": nj,
                            "_cost": 1e6 * 9 ** Lo * nj * nj, "_splitbits": 4 if quick else 8})
    for cap in (False, True):
        if quick:
            out.append({"kind": "wf", "Lo": 3, "M": 4, "nfresh": 3, "cap": cap, "n_jumps": 1, "_cost": 5e8, "_splitbits": 5})
        else:
            out.append({"kind": "wf", "Lo": 3, "Mmax": 4, "cap": cap, "n_jumps": 1, "_cost": 5e9, "_splitbits": 8})
    return out


EXPECT = ["sh:ACC", "sh:BTL", "sh:BTX", "sh:BWI", "sh:FTL", "sh:FTX", "sh:NCR", "sh:KOB", "wf:ACC", "wf:NSG", "wf:BWI",
          "wf:FTX", "sh:premise-true", "wf:reversed"]


def run_instance(ctx, shape):
    if shape["kind"] == "sh":
        return _sh(ctx, shape)
    return _wf(ctx, shape)


# ---------------------------------------------------------------------------------------------------------------
def _mk_ensemble(ctx, kind):
    """returns (interfaces tuple, start_cond as the code stores it, start set, full interface list, moves, ens_num)"""
    import z3
    if kind == "plus":
        l0, li, ln = ctx.real("lam0"), ctx.real("lami"), ctx.real("lamN")
        ctx.assume(ctx.rel(l0, "<=", li))
        ctx.assume(ctx.rel(li, "<", ln))
        return (l0, li, ln), "L", {"L"}
    if kind == "minus":
        l0 = ctx.real("lam0")
        return (float("-inf"), l0, l0), "R", {"R"}
    lm1, l0 = ctx.real("lamm1"), ctx.real("lam0")
    ctx.assume(ctx.rel(lm1, "<", l0))
    return (lm1, (lm1 + l0) / 2, l0), ["L", "R"], {"L", "R"}


def _assume_valid_old(ctx, orders, intf, start):
    import z3
    left, mid, right = intf
    inf_left = isinstance(left, float)

    def out_l(o):
        return z3.BoolVal(False) if inf_left else ctx.rel(o, "<", left)

    def out_r(o):
        return ctx.rel(o, ">", right)
    first = []
    if "L" in start:
        first.append(out_l(orders[0]))
    if "R" in start:
        first.append(out_r(orders[0]))
    ctx.assume(z3.Or(first))
    ctx.assume(z3.Or(out_l(orders[-1]), out_r(orders[-1])))
    for o in orders[1:-1]:
        if not inf_left:
            ctx.assume(ctx.rel(o, ">=", left))
        ctx.assume(ctx.rel(o, "<=", right))


def _snapshot(path):
    return [(pp, pp.order, pp.order[0], pp.config, pp.vel_rev) for pp in path.phasepoints]


def _unchanged(path, snap):
    if len(path.phasepoints) != len(snap):
        return False
    for pp, s in zip(path.phasepoints, snap):
        if pp is not s[0] or pp.order is not s[1] or pp.order[0] is not s[2] or pp.config != s[3] or pp.vel_rev != s[4]:
            return False
    return True


class _Spy:
    """wraps tis.shoot / tis.wire_fencing to record (accept, status) of every move call."""

    def __init__(self):
        self.calls = []

    def __enter__(self):
        self.real = {n: getattr(tis, n) for n in ("shoot", "wire_fencing")}
        for n, f in self.real.items():
            def mk(n, f):
                def w(*a, **k):
                    r = f(*a, **k)
                    self.calls.append((n, r[0], r[2], r[1].status))
                    return r
                return w
            setattr(tis, n, mk(n, f))
        return self

    def __exit__(self, *a):
        for n, f in self.real.items():
            setattr(tis, n, f)


def _run_move(ctx, ens_set, old, eng, ens_num, interfaces_full, moves, cap):
    picked = {ens_num: {"ens": ens_set, "traj": old, "pn_old": old.path_number, "eng_idx": {"engine": 0},
                        "exe_dir": ".", "rgen-eng": "ENGINE-STREAM"}}
    md = {"picked": picked, "mc_moves": moves, "interfaces": interfaces_full, "cap": cap,
          "moves": [], "trial_len": [], "trial_op": [], "generated": []}
    saved = tis.ENGINES
    tis.ENGINES = {"engine": [eng]}
    try:
        with _Spy() as spy:
            md = tis.run_md(md)
    finally:
        tis.ENGINES = saved
    return md, spy.calls


def _sh(ctx, sh):
    kind, Lo, Mmax, mode = sh["ens"], sh["Lo"], sh["Mmax"], sh["mode"]
    intf, start_cond, start = _mk_ensemble(ctx, kind)
    left, mid, right = intf
    M = ctx.int("maxlength", 3, Mmax)
    old_orders = [ctx.real(f"o{i}") for i in range(Lo)]
    _assume_valid_old(ctx, old_orders, intf, start)
    # 're' = a path restored by a restart (load_paths_from_disk tags it so): the acceptance rule applies to it like to any
    # generated path; only a freshly loaded initial path ('ld') is exempt
    old = mk_path(old_orders, maxlen=M, generated=({"ld": "ld", "re": "re"}.get(mode, "sh"), 0.0, 0, 0), path_number=7)
    old.time_origin = 0
    rng = InvRng(ctx)
    tis_set = {"maxlength": M, "allowmaxlength": mode == "allowmax", "lambda_minus_one": False, "quantis": False}
    ens_set = {"interfaces": intf, "tis_set": tis_set, "mc_move": "sh", "ens_name": "001", "start_cond": start_cond,
               "rgen": rng}
    eng = ScriptEngine(ctx, nfresh=Mmax - 2, kick_changes_order=sh["kick"])
    snap = _snapshot(old)
    if kind == "plus":
        full, moves, ens_num, own = [left, mid, right], ["sh", "sh", "sh"], 1, 1
    else:
        l0 = right
        full, moves, ens_num, own = [l0, l0 + 1], ["sh", "sh"], -1, 0
        if kind == "minus_lm1":
            tis_set["lambda_minus_one"] = left
    try:
        md, calls = _run_move(ctx, ens_set, old, eng, ens_num, full, moves, None)
    except Exception as e:
        core.reraise_if_proxy_limitation(e)
        ctx.fail("C09:no-exception", repr(e))
        return
    status = md["status"]
    accept = calls[-1][1]
    trial_status = calls[-1][3]
    traj = md["picked"][ens_num]["traj"]
    ctx.cover("sh:" + status)
    # (a)
    ctx.check(accept == (status == "ACC") and trial_status == status, "C09:accept-iff-status-ACC",
              f"accept={accept} status={status} path.status={trial_status}")
    # engine stream handed over (C07 hand-over site)
    ctx.check(eng.rgen == "ENGINE-STREAM", "C07:engine-gets-its-job-stream", f"{eng.rgen!r}")
    # (e)
    idx = [d for d in rng.draws if d[0] == "integers"][0][1]
    ctx.check(1 <= idx <= Lo - 2, "C09:shooting-point-is-never-an-end-point", f"idx={idx} Lo={Lo}")
    ndraw = sum(1 for d in rng.draws if d[0] == "random")
    sp_order = eng.ctx.real("eng.kick_order") if sh["kick"] else old_orders[idx]
    # (c)
    if status != "ACC":
        ctx.check(traj is old and _unchanged(old, snap), "C09:rejection-leaves-old-path", f"status={status}")
    else:
        ctx.check(_unchanged(old, snap), "C09:old-path-frames-untouched-on-accept")
        ctx.check(traj is not old, "C09:accepted-trial-replaces-old")
        # (b)
        orders = orders_of(traj)
        ok, why = E.valid(orders, left, mid, right, start, maxlength=M)
        ctx.check(ok, "C09:accepted-path-valid-in-ensemble", lambda: f"{why}; tags {tags_of(traj)}")
        tags = tags_of(traj)
        nb = sum(1 for t in tags if t[2] == "B")
        exp = [(1, k, "B") for k in reversed(range(nb))] + [(2, k, "F") for k in range(1, len(tags) - nb + 1)]
        ctx.check([t[:3] for t in tags] == exp, "C09:frames-ordered-in-time", lambda: f"{tags}")
        ctx.check(nb >= 1 and tags[nb - 1][:2] == (1, 0) and tags[nb - 1][3] == ("o", idx)
                  and traj.generated[3] == nb - 1 and traj.generated[2] == idx,
                  "C09:contains-the-shooting-point", lambda: f"{tags} generated {traj.generated}")
        ctx.check(traj.weights is not None and traj.weights[own] != 0, "C09:nonzero-weight-in-own-ensemble",
                  lambda: f"weights {traj.weights}")
    # (d) the acceptance rule against the natural (unbounded) trajectories
    kick_ok = (left <= sp_order) and (sp_order < right)
    if not kick_ok:
        ctx.check(status == "KOB", "C09:kick-outside-rejected", status)
        return
    nf = eng.nfresh

    def natural(sid):
        for k in range(1, nf + 1):
            v = eng.seg_value(sid, k)
            s = E.side_strict(v, left, right)
            if s is not None:
                return k, s
        return None, None
    kb, sb = natural(1)
    kf, sf = natural(2)
    if mode in ("plain", "re"):
        ctx.check(ndraw == 1, "C09:one-draw-for-length", f"{ndraw} (mode {mode})")
    else:
        ctx.check(ndraw == 0, "C09:no-length-draw-for-ld/allowmaxlength", f"{ndraw}")
    if kb is None or kf is None:
        ctx.check(not accept, "C09:accept-needs-both-ends-to-reach-an-interface")
        return
    Ln = kb + kf + 1
    nat = [eng.seg_value(1, k) for k in range(kb, 0, -1)] + [sp_order] + [eng.seg_value(2, k) for k in range(1, kf + 1)]
    premise, why = E.valid(nat, left, mid, right, start, maxlength=M)
    if not premise:
        ctx.check(not accept, "C09:accept-implies-natural-trial-valid", why)
        return
    ctx.cover("sh:premise-true")
    if mode in ("plain", "re"):
        x = [d for d in rng.draws if d[0] == "random"][0][1]
        inv = 1 / x  # = the symbolic x > 1
        spec = (Ln - 2) <= (Lo - 2) * inv
        n = ctx.floor((Lo - 2) * inv)
        used = n + 2 if n + 2 < M else M
    else:
        spec = True
        used = M
    if accept != spec:
        at_limit = Ln == used
        if at_limit:
            ctx.cover("sh:limit-hit-exactly")
        ctx.check(False, "C09:accept-iff-draw<=n_old/n_new",
                  lambda: f"accept={accept} spec={spec} Lo={Lo} Ln={Ln} status={status} mode={mode}",
                  known_key=KNOWN_MAXLEN if (at_limit and spec and not accept) else None)
    else:
        ctx.check(True, "C09:accept-iff-draw<=n_old/n_new")


# ---------------------------------------------------------------------------------------------------------------
def _wf(ctx, sh):
    import z3
    Lo, nj = sh["Lo"], sh["n_jumps"]
    l0, li, ln = ctx.real("lam0"), ctx.real("lami"), ctx.real("lamN")
    ctx.assume(ctx.rel(l0, "<=", li))
    ctx.assume(ctx.rel(li, "<", ln))
    intf = (l0, li, ln)
    cap = None
    if "M" in sh:
        M, nfresh = sh["M"], sh["nfresh"]
    else:
        M, nfresh = ctx.int("maxlength", 3, sh["Mmax"]), sh["Mmax"] - 1
    tis_set = {"maxlength": M, "allowmaxlength": False, "lambda_minus_one": False, "quantis": False, "n_jumps": nj}
    if sh["cap"]:
        cap = ctx.real("cap")
        ctx.assume(ctx.rel(li, "<", cap))
        ctx.assume(ctx.rel(cap, "<=", ln))
        tis_set["interface_cap"] = cap
    old_orders = [ctx.real(f"o{i}") for i in range(Lo)]
    _assume_valid_old(ctx, old_orders, intf, {"L"})
    mx = old_orders[0]
    # old path crosses its interface (valid in [i+])
    ctx.assume(z3.Or([ctx.rel(o, ">=", li) for o in old_orders]))
    old = mk_path(old_orders, maxlen=M, generated=("wf", 0.0, 0, 0), path_number=7)
    rng = InvRng(ctx)
    ens_set = {"interfaces": intf, "tis_set": tis_set, "mc_move": "wf", "ens_name": "002", "start_cond": "L", "rgen": rng}
    eng = ScriptEngine(ctx, nfresh=nfresh)
    snap = _snapshot(old)
    try:
        md, calls = _run_move(ctx, ens_set, old, eng, 1, [l0, li, ln], ["sh", "sh", "wf"], cap)
    except AssertionError as e:
        ctx.fail("C09:wire-fencing-internal-assertion", repr(e))
        return
    except Exception as e:
        core.reraise_if_proxy_limitation(e)
        ctx.fail("C09:no-exception", repr(e))
        return
    status = md["status"]
    accept = calls[-1][1]
    traj = md["picked"][1]["traj"]
    ctx.cover("wf:" + status)
    ctx.check(accept == (status == "ACC") and calls[-1][0] == "wire_fencing", "C09:accept-iff-status-ACC",
              f"accept={accept} status={status}")
    for c in calls[:-1]:
        ctx.check(c[1] == (c[2] == "ACC"), "C09:accept-iff-status-ACC", f"inner shoot {c}")
    if status != "ACC":
        ctx.check(traj is old and _unchanged(old, snap), "C09:rejection-leaves-old-path", f"status={status}")
        return
    ctx.check(_unchanged(old, snap), "C09:old-path-frames-untouched-on-accept")
    orders = orders_of(traj)
    ok, why = E.valid(orders, l0, li, ln, {"L"}, maxlength=M)
    ctx.check(ok, "C09:accepted-path-valid-in-ensemble", lambda: f"{why}; tags {tags_of(traj)}")
    tags = tags_of(traj)
    ctx.check(len(set(map(repr, tags))) == len(tags), "C09:no-duplicated-frame", lambda: f"{tags}")
    if traj.weights is None or traj.weights[1] == 0:
        capv = cap if cap is not None else ln
        on_cap = any(o == capv for o in orders)
        ctx.check(False, "C09:nonzero-weight-in-own-ensemble", lambda: f"weights {traj.weights}; a frame lies exactly "
                  f"on the wire-fencing right boundary: {on_cap}", known_key=KNOWN_ONCAP if on_cap else None)
    else:
        ctx.check(True, "C09:nonzero-weight-in-own-ensemble")
    if any(pp.vel_rev for pp in traj.phasepoints) and tags and tags[0][2] == "F":
        ctx.cover("wf:reversed")
    # the last successful shooting point is part of the path
    succ = [p for p in eng.propagations]
    ctx.check(traj.generated[0] == "wf" and traj.generated[2] >= 1, "C09:wf-generated-record")
