"""H12 -- C12 (engine-side bookkeeping): the stop rule, velocity-direction handling of EngineBase.propagate and the
polling loop of the LAMMPS engine under a stubbed process and on-the-fly reader."""
from __future__ import annotations

import logging

import numpy as np

import infretis.classes.engines.enginebase as ibase
import infretis.classes.engines.cp2k as icp2k
import infretis.classes.engines.gromacs as igmx
import infretis.classes.engines.lammps as ilmp
from infretis.classes.path import Path
from infretis.classes.system import System
from symx import core, npfacade
from symx.stubs import mk_path, mk_system

logging.disable(logging.CRITICAL)

PROPERTIES = ["C12"]
EXPLANATION = ("H12: (1) EngineBase.add_to_path on every path state / symbolic length limit / order value / interfaces; "
               "(2) EngineBase.propagate with a stub subclass: velocity reversal on disk and the direction handed on; "
               "(3) LAMMPSEngine._propagate_from run for real with a fake process (symbolic exit time and return code) and a "
               "fake on-the-fly reader delivering tagged frames (x_k, v_k, box_k) in batches chosen nondeterministically; the "
               "order function is a stub that records which coordinates, box and velocity sign each stored order value was "
               "computed from and returns a symbolic value per frame.")
ASSUMPTIONS = [
    "the numerical trajectories of the MD programs (and 'backward retraces forward') are outside: behind subprocesses and file formats",
    "reader contract: each poll returns the frames completed since the last poll, in order (C13); after the process has exited "
    "the next poll returns everything left",
    "process contract: poll() returns None until exit, then the return code; killpg/wait/sleep are recorded no-ops",
    "CP2K: two readers (positions, velocities) deliver independent batch sizes; ASE: the in-process loop runs with fake Atoms / "
    "calculator / integrator / Trajectory objects (the calculator lives on the engine across propagations); the TurtleMD loop and "
    "the ASE/TurtleMD numerics are not executed here",
]
KNOWN_BOX = "C12-lammps-box-of-last-ready-frame"
KNOWN_GMX = "C12-gromacs-backward-velocities-negated-twice"


def install():
    npfacade.install(ibase)


def functions():
    return [ibase.EngineBase.add_to_path, ibase.EngineBase.propagate, ibase.EngineBase.calculate_order,
            ibase.EngineBase.snapshot_to_system, ilmp.LAMMPSEngine._propagate_from, ilmp.shift_boxbounds,
            icp2k.CP2KEngine._propagate_from, igmx.GromacsEngine._propagate_from]


def bounds(tier, prop):
    return {"add_to_path": "paths of 0..3 frames, symbolic integer limit 1..5",
            "LAMMPS loop": "<= 4 frames produced (5 thorough), <= 2 per poll, process exit after 0..3 polls, return code 0/1, "
                           "length limit symbolic 2..frames+1", "outside": "longer runs; other engines' loops"}


def instances(tier, prop):
    out = []
    for n in range(0, 4):
        out.append({"kind": "add", "n": n, "_cost": 5})
    for reverse in (False, True):
        for vel_rev in (False, True):
            out.append({"kind": "prelude", "reverse": reverse, "vel_rev": vel_rev, "_cost": 2})
    F = 4 if tier == "quick" else 5
    for reverse in (False, True):
        for rc in (0, 1):
            out.append({"kind": "lammps", "F": F, "reverse": reverse, "rc": rc, "_cost": 4 ** F, "_splitbits": 3})
            out.append({"kind": "cp2k", "F": F - 1, "reverse": reverse, "rc": rc, "_cost": 9 ** F, "_splitbits": 4})
        out.append({"kind": "gromacs", "F": F, "reverse": reverse, "_cost": 3 ** F})
    out.append({"kind": "ase", "F": F - 1, "_cost": 9 ** F})
    return out


EXPECT = ["ase:two-propagations", "gromacs:stopped", "gromacs:exhausted", "cp2k:killed", "cp2k:ran-to-completion", "cp2k:raised", "cp2k:uneven-batches", "add:stop-outside", "add:stop-limit", "add:continue", "add:refused", "prelude:reversed", "prelude:kept",
          "lammps:killed", "lammps:ran-to-completion", "lammps:raised", "lammps:batch>1"]


def run_instance(ctx, sh):
    return {"add": _add, "prelude": _prelude, "lammps": _lammps, "cp2k": _cp2k, "gromacs": _gromacs, "ase": _ase}[sh["kind"]](ctx, sh)


# ------------------------------------------------------------------------------------------------ (1) add_to_path
def _add(ctx, sh):
    n = sh["n"]
    left, right = ctx.real("left"), ctx.real("right")
    ctx.assume(ctx.rel(left, "<=", right))
    maxlen = ctx.int("maxlen", 1, 5)
    ctx.assume(ctx.rel(maxlen, ">=", n))
    orders = [ctx.real(f"o{i}") for i in range(n)]
    for o in orders:      # frames already in a propagating path are inside (otherwise it would have stopped)
        ctx.assume(ctx.rel(o, ">=", left))
        ctx.assume(ctx.rel(o, "<=", right))
    path = mk_path(orders, maxlen=maxlen)
    new = ctx.real("new")
    pp = mk_system(new, tag="new")
    status, success, stop, add = ibase.EngineBase.add_to_path(path, pp, left, right)
    outside = (new < left) or (new > right)
    full_before = not (n < maxlen)
    ctx.check(add == (not full_before), "C12:frame-appended-unless-path-full", f"{add}")
    ctx.check(path.length <= maxlen, "C12:path-never-exceeds-the-limit", f"{path.length}")
    if add:
        ctx.check(path.phasepoints[-1] is pp and path.length == n + 1, "C12:frame-added-at-the-end")
        at_limit = path.length == maxlen
        ctx.check(stop == (outside or at_limit), "C12:stops-at-first-frame-outside-or-at-the-limit", f"stop={stop}")
        ctx.check(success == outside, "C12:success-only-when-the-last-frame-is-outside", f"success={success} outside={outside}")
        ctx.cover("add:stop-outside" if outside else ("add:stop-limit" if at_limit else "add:continue"))
    else:
        ctx.check(stop and not success, "C12:refused-append-stops-without-success", f"{stop} {success}")
        ctx.cover("add:refused")


# ------------------------------------------------------------------------------------------------ (2) propagate prelude
class _MsgFile:
    def __init__(self, *a, **k):
        self.lines = []

    def open(self):
        pass

    def write(self, s):
        self.lines.append(s)

    def close(self):
        pass


class _StubEngine(ibase.EngineBase):
    def __init__(self):
        super().__init__("stub", 1.0, 1)
        self._exe_dir = "/exe"
        self.calls = []

    def modify_velocities(self, *a):
        pass

    def set_mdrun(self, *a):
        pass

    def _extract_frame(self, traj_file, idx, out_file):
        self.calls.append(("extract", traj_file, idx, out_file))

    def _read_configuration(self, f):
        pass

    def _reverse_velocities(self, filename, outfile):
        self.calls.append(("reverse", filename, outfile))

    def _propagate_from(self, name, path, system, ens_set, msg_file, reverse=False):
        self.calls.append(("from", name, system.config, system.vel_rev, reverse))
        return True, "ok"


def _prelude(ctx, sh):
    saved = ibase.FileIO
    ibase.FileIO = _MsgFile
    try:
        e = _StubEngine()
        s = mk_system(ctx.real("o"), tag="sp", config=("/load/3/accepted/t.xyz", 4), vel_rev=sh["vel_rev"])
        path = Path(maxlen=5)
        ok, status = e.propagate(path, {"ens_name": "001", "interfaces": (0, 1, 2)}, s, reverse=sh["reverse"])
    finally:
        ibase.FileIO = saved
    ex = [c for c in e.calls if c[0] == "extract"]
    rv = [c for c in e.calls if c[0] == "reverse"]
    fr = [c for c in e.calls if c[0] == "from"][0]
    ctx.check(len(ex) == 1 and ex[0][1:3] == ("/load/3/accepted/t.xyz", 4), "C12:first-frame-is-the-given-phase-point", f"{ex}")
    need = sh["reverse"] != sh["vel_rev"]
    ctx.check((len(rv) == 1) == need, "C12:velocities-reversed-on-disk-iff-direction-differs", f"{rv}")
    if need:
        ctx.check(rv[0][1] == ex[0][3] and fr[2] == (rv[0][2], 0), "C12:propagation-starts-from-the-reversed-copy", f"{rv} {fr}")
        ctx.cover("prelude:reversed")
    else:
        ctx.check(fr[2] == (ex[0][3], 0), "C12:propagation-starts-from-the-dumped-frame", f"{fr}")
        ctx.cover("prelude:kept")
    ctx.check(fr[3] == sh["reverse"] and fr[4] == sh["reverse"], "C12:system-handed-on-has-the-propagation-direction", f"{fr}")
    ctx.check(("trajB" in fr[1]) == sh["reverse"], "C12:trajectory-name-encodes-direction", fr[1])


# ------------------------------------------------------------------------------------------------ (3) LAMMPS loop
class _Proc:
    def __init__(self, world):
        self.w = world
        self.pid = 4242
        self.returncode = None

    def poll(self):
        w = self.w
        if self.returncode is not None:
            return self.returncode
        if w["killed"]:
            self.returncode = -15
            return self.returncode
        if w["alive_polls"] <= 0:
            self.returncode = w["rc"]
            w["exited"] = True
            return self.returncode
        w["alive_polls"] -= 1
        return None

    def wait(self, timeout=None):
        self.w["waited"] += 1
        if self.returncode is None:
            self.returncode = -15
        return self.returncode


class _Reader:
    def __init__(self, world, ctx):
        self.w, self.ctx = world, ctx

    def read_and_process_content(self):
        w = self.w
        left = w["F"] - w["delivered"]
        if w["exited"] or w["killed"]:
            b = left
        else:
            b = self.ctx.choice(min(2, left) + 1, "frames-ready")
        frames, boxes = [], []
        for k in range(w["delivered"], w["delivered"] + b):
            pv = np.zeros((1, 6))
            pv[0, :3] = 10.0 + k          # positions carry the frame index
            pv[0, 3:] = 1.0 + k           # velocities too
            bx = np.zeros((3, 2))
            bx[:, 1] = 100.0 + k          # box lengths carry the frame index (varying box)
            frames.append(pv)
            boxes.append(bx)
        w["delivered"] += b
        if b > 1:
            self.ctx.cover("lammps:batch>1")
        return frames, boxes


class _OrderFn:
    velocity_dependent = True

    def __init__(self, ctx, world):
        self.ctx, self.w = ctx, world

    def calculate(self, system):
        k_pos = int(round(float(system.pos[0, 0]) - 10.0))
        k_box = int(round(float(np.asarray(system.box).flat[0]) - 100.0))
        v = float(system.vel[0, 0])
        k_vel = int(round(abs(v) - 1.0))
        self.w["calls"].append({"pos": k_pos, "box": k_box, "vel": k_vel, "vsign": -1 if v < 0 else 1,
                                "vel_rev": system.vel_rev})
        return [self.ctx.real(f"ord{k_pos}")]


def _lammps(ctx, sh):
    F, reverse, rc = sh["F"], sh["reverse"], sh["rc"]
    left, right = ctx.real("left"), ctx.real("right")
    ctx.assume(ctx.rel(left, "<", right))
    maxlen = ctx.int("maxlen", 2, sh["F"] + 1)
    world = {"F": F, "delivered": 0, "alive_polls": ctx.choice(6, "alive-polls"), "rc": rc, "exited": False, "killed": False,
             "waited": 0, "calls": [], "kills": 0, "alive_at_kill": None}
    e = ilmp.LAMMPSEngine.__new__(ilmp.LAMMPSEngine)
    ibase.EngineBase.__init__(e, "bare-lammps", 1.0, 1)
    e._exe_dir = "/exe"
    e.ext = "lammpstrj"
    e.description = "lammps-stub"
    e.lmp = ["lmp"]
    e.input_files = {"data": "d", "input": "i"}
    e.timestep, e.subcycles, e.temperature, e.sleep = 1.0, 1, 300.0, 0.0
    e.n_atoms = 1
    e.order_function = _OrderFn(ctx, world)

    class _R:
        def integers(self, a, b):
            return 7
    e.rgen = _R()
    e._read_configuration = lambda f: (np.full((1, 3), 10.0), np.full((1, 3), 1.0), np.full(3, 100.0), None)
    e._removefile = lambda f: None
    proc = _Proc(world)
    saved = {k: getattr(ilmp, k) for k in ("subprocess", "os", "sleep", "open", "write_for_run", "read_energies",
                                           "ReadAndProcessOnTheFly", "signal") if hasattr(ilmp, k)}
    had_open = "open" in ilmp.__dict__

    class _SP:
        PIPE = -1

        @staticmethod
        def Popen(*a, **k):
            return proc

    class _OSP:
        @staticmethod
        def exists(p):
            return True

        @staticmethod
        def join(*a):
            return "/".join(a)

    class _OS:
        path = _OSP()
        setsid = None

        @staticmethod
        def getpgid(pid):
            return pid

        @staticmethod
        def killpg(pg, sig):
            world["kills"] += 1
            world["alive_at_kill"] = proc.returncode is None and not world["exited"]
            world["killed"] = True

    class _F:
        def __enter__(self):
            return self

        def __exit__(self, *a):
            return False
    ilmp.subprocess, ilmp.os, ilmp.sleep = _SP, _OS, (lambda t: None)
    ilmp.open = lambda *a, **k: _F()
    ilmp.write_for_run = lambda *a, **k: None
    ilmp.read_energies = lambda f: {"KinEng": np.arange(50.0), "PotEng": np.arange(50.0) + 0.5}
    ilmp.ReadAndProcessOnTheFly = lambda f, fn: _Reader(world, ctx)
    system = System()
    system.config = ("/exe/conf", 0)
    system.vel_rev = reverse
    path = Path(maxlen=maxlen)
    raised = None
    try:
        try:
            success, status = e._propagate_from("name", path, system, {"interfaces": (left, (left + right) / 2, right)},
                                                _MsgFile(), reverse=reverse)
        except RuntimeError as ex:
            raised = ex
        except core.Inconclusive:
            raise
        except (core._Abort, core._Stop, core._Skip):
            raise
        except Exception as ex:
            core.reraise_if_proxy_limitation(ex)
            ctx.fail("C12:no-unexpected-exception", repr(ex))
    finally:
        for k, v in saved.items():
            setattr(ilmp, k, v)
        if not had_open:
            del ilmp.open
    calls = world["calls"][1:]          # the first call is the 'initial order parameter' of the start configuration
    n = path.length
    # which frame should have stopped the propagation?
    stop_at = None
    for k in range(F):
        o = ctx.real(f"ord{k}")
        if (o < left) or (o > right) or (k + 1 == maxlen):
            stop_at = k
            break
    if raised is not None:
        ctx.check(rc != 0 and world["kills"] == 0, "C12:raises-only-for-a-failed-program-that-was-not-stopped", repr(raised))
        ctx.cover("lammps:raised")
        return
    # frame k references (traj_file, k) and was computed from x_k, box_k, v_k with the frame's own direction
    for k, pp in enumerate(path.phasepoints):
        ctx.check(pp.config == ("/exe/name.lammpstrj", k) and pp.vel_rev == reverse, "C12:frame-k-references-configuration-k",
                  f"{pp.config}")
        c = calls[k]
        ctx.check(c["pos"] == k and c["vel"] == k, "C12:order-of-frame-k-computed-from-frame-k-coordinates", f"{c}")
        ctx.check(c["box"] == k, "C12:order-of-frame-k-computed-with-frame-k-box", f"frame {k} used box {c['box']}",
                  known_key=KNOWN_BOX if c["box"] != k else None)
        ctx.check(c["vsign"] == (-1 if reverse else 1) and c["vel_rev"] == reverse, "C12:velocity-direction-of-the-frame-applied-once",
                  f"{c}")
        ctx.check(bool(pp.order[0] == ctx.real(f"ord{k}")), "C12:stored-order-is-the-one-computed-for-that-frame")
    if stop_at is not None and stop_at < F:
        ctx.check(n == stop_at + 1 and len(calls) == n, "C12:stops-at-the-first-frame-outside-or-at-the-limit",
                  f"{n} frames, expected {stop_at + 1}")
        o = ctx.real(f"ord{stop_at}")
        outside = (o < left) or (o > right)
        ctx.check(success == outside, "C12:success-only-when-stopped-by-an-interface", f"{success}")
        alive = world["alive_at_kill"]
        ctx.check((world["kills"] == 1) == bool(alive) if world["kills"] else True, "C12:kill-only-a-running-program")
        ctx.check(world["kills"] <= 1 and (world["kills"] == 0 or world["waited"] == 1), "C12:program-stopped-once-and-waited-for",
                  f"kills {world['kills']} waits {world['waited']}")
        ctx.check(world["kills"] == 1 or world["exited"], "C12:external-program-is-stopped-when-propagation-ends",
                  f"kills {world['kills']} exited {world['exited']}")
        if world["kills"]:
            ctx.cover("lammps:killed")
    else:
        # the program ran to completion without a stop: nothing may be dropped
        ctx.check(rc == 0, "C12:failed-program-raises-instead-of-returning-a-truncated-path", f"rc {rc}")
        ctx.check(n == F and len(calls) == F, "C12:all-frames-of-a-completed-run-are-returned", f"{n} of {F}")
        ctx.check(not success, "C12:no-success-without-crossing")
        ctx.cover("lammps:ran-to-completion")


# ------------------------------------------------------------------------------------------------ (3b) CP2K loop
class _XyzReader:
    def __init__(self, world, ctx, which):
        self.w, self.ctx, self.which = world, ctx, which

    def read_and_process_content(self):
        w = self.w
        key = "delivered_" + self.which
        left = w["F"] - w[key]
        if w["exited"] or w["killed"]:
            b = left
        else:
            b = self.ctx.choice(min(2, left) + 1, f"{self.which}-frames-ready")
        out = []
        for k in range(w[key], w[key] + b):
            out.append(np.full((1, 3), (10.0 if self.which == "pos" else 1.0) + k))
        w[key] += b
        return out


class _OrderFn2:
    velocity_dependent = True

    def __init__(self, ctx, world):
        self.ctx, self.w = ctx, world

    def calculate(self, system):
        k_pos = int(round(float(system.pos[0, 0]) - 10.0))
        v = float(system.vel[0, 0])
        self.w["calls"].append({"pos": k_pos, "vel": int(round(abs(v) - 1.0)), "vsign": -1 if v < 0 else 1,
                                "vel_rev": system.vel_rev})
        return [self.ctx.real(f"ord{k_pos}")]


def _cp2k(ctx, sh):
    F, reverse, rc = sh["F"], sh["reverse"], sh["rc"]
    left, right = ctx.real("left"), ctx.real("right")
    ctx.assume(ctx.rel(left, "<", right))
    maxlen = ctx.int("maxlen", 2, sh["F"] + 1)
    world = {"F": F, "delivered_pos": 0, "delivered_vel": 0, "alive_polls": ctx.choice(6, "alive-polls"), "rc": rc,
             "exited": False, "killed": False, "waited": 0, "calls": [], "kills": 0, "alive_at_kill": None, "written": []}
    e = icp2k.CP2KEngine.__new__(icp2k.CP2KEngine)
    ibase.EngineBase.__init__(e, "bare-cp2k", 1.0, 1)
    e._exe_dir = "/exe"
    e.ext = "xyz"
    e.description = "cp2k-stub"
    e.cp2k = ["cp2k"]
    e.input_files = {"template": "t", "conf": "c"}
    e.timestep, e.subcycles, e.temperature, e.sleep = 1.0, 1, 300.0, 0.0
    e.order_function = _OrderFn2(ctx, world)
    e._read_configuration = lambda f: (np.full((1, 3), 10.0), np.full((1, 3), 1.0), np.full(3, 100.0), ["A"])
    e._removefile = lambda f: None
    e.add_input_files = lambda d: None
    proc = _Proc(world)
    names = ("subprocess", "os", "sleep", "open", "write_for_run_vel", "read_cp2k_energy", "ReadAndProcessOnTheFly",
             "write_xyz_trajectory", "read_cp2k_box")
    saved = {k: icp2k.__dict__[k] for k in names if k in icp2k.__dict__}

    class _SP:
        PIPE = -1

        @staticmethod
        def Popen(*a, **k):
            return proc

    import os as _realos

    class _OSP:
        exists = staticmethod(lambda p: True)
        join = staticmethod(_realos.path.join)
        basename = staticmethod(_realos.path.basename)

    class _OS:
        path = _OSP()
        setsid = None
        getpgid = staticmethod(lambda pid: pid)

        @staticmethod
        def killpg(pg, sig):
            world["kills"] += 1
            world["alive_at_kill"] = proc.returncode is None and not world["exited"]
            world["killed"] = True

    class _Fh:
        def __enter__(self):
            return self

        def __exit__(self, *a):
            return False
    icp2k.subprocess, icp2k.os, icp2k.sleep = _SP, _OS, (lambda t: None)
    icp2k.open = lambda *a, **k: _Fh()
    icp2k.write_for_run_vel = lambda *a, **k: None
    icp2k.read_cp2k_energy = lambda f: {"ekin": np.arange(50.0), "vpot": np.arange(50.0) + 0.5}
    icp2k.read_cp2k_box = lambda f: (np.full(3, 100.0), None)
    icp2k.ReadAndProcessOnTheFly = lambda f, fn: _XyzReader(world, ctx, "pos" if "pos" in str(f) else "vel")
    icp2k.write_xyz_trajectory = lambda f, p, v, a, b, **k: world["written"].append((f, float(p[0, 0]) - 10.0, float(v[0, 0]) - 1.0))
    system = System()
    system.config = ("/exe/conf.xyz", 0)
    system.vel_rev = reverse
    path = Path(maxlen=maxlen)
    raised = None
    try:
        try:
            success, status = e._propagate_from("name", path, system, {"interfaces": (left, (left + right) / 2, right)},
                                                _MsgFile(), reverse=reverse)
        except RuntimeError as ex:
            raised = ex
        except core.Inconclusive:
            raise
        except (core._Abort, core._Stop, core._Skip):
            raise
        except Exception as ex:
            core.reraise_if_proxy_limitation(ex)
            ctx.fail("C12:no-unexpected-exception", repr(ex))
    finally:
        for k in names:
            if k in saved:
                setattr(icp2k, k, saved[k])
            elif k in icp2k.__dict__:
                delattr(icp2k, k)
    if world["delivered_pos"] != world["delivered_vel"]:
        ctx.cover("cp2k:uneven-batches")
    calls = world["calls"][1:]
    n = path.length
    stop_at = None
    for k in range(F):
        o = ctx.real(f"ord{k}")
        if (o < left) or (o > right) or (k + 1 == maxlen):
            stop_at = k
            break
    if raised is not None:
        ctx.check(rc != 0 and world["kills"] == 0, "C12:raises-only-for-a-failed-program-that-was-not-stopped", repr(raised))
        ctx.cover("cp2k:raised")
        return
    for k, pp in enumerate(path.phasepoints):
        ctx.check(pp.config == ("/exe/name.xyz", k) and pp.vel_rev == reverse, "C12:frame-k-references-configuration-k", f"{pp.config}")
        c = calls[k]
        ctx.check(c["pos"] == k and c["vel"] == k, "C12:order-of-frame-k-computed-from-frame-k-coordinates", f"{c}")
        ctx.check(c["vsign"] == (-1 if reverse else 1) and c["vel_rev"] == reverse, "C12:velocity-direction-of-the-frame-applied-once", f"{c}")
        ctx.check(world["written"][k] == ("/exe/name.xyz", float(k), float(k)), "C12:configuration-k-of-the-trajectory-file-is-frame-k",
                  f"{world['written'][k]}")
    ctx.check(len(world["written"]) == n, "C12:trajectory-file-holds-exactly-the-path-frames", f"{len(world['written'])} vs {n}")
    if stop_at is not None:
        ctx.check(n == stop_at + 1, "C12:stops-at-the-first-frame-outside-or-at-the-limit", f"{n} frames, expected {stop_at + 1}")
        o = ctx.real(f"ord{stop_at}")
        ctx.check(success == ((o < left) or (o > right)), "C12:success-only-when-stopped-by-an-interface", f"{success}")
        ctx.check(world["kills"] <= 1 and (world["kills"] == 0 or world["waited"] == 1), "C12:program-stopped-once-and-waited-for", "")
        ctx.check(world["kills"] == 1 or world["exited"], "C12:external-program-is-stopped-when-propagation-ends", "")
        if world["kills"]:
            ctx.cover("cp2k:killed")
    else:
        ctx.check(rc == 0, "C12:failed-program-raises-instead-of-returning-a-truncated-path", f"rc {rc}")
        ctx.check(n == F, "C12:all-frames-of-a-completed-run-are-returned", f"{n} of {F}")
        ctx.check(not success, "C12:no-success-without-crossing")
        ctx.cover("cp2k:ran-to-completion")


# ------------------------------------------------------------------------------------------------ (3c) GROMACS loop
def _gromacs(ctx, sh):
    """GromacsEngine._propagate_from with a fake GromacsRunner yielding tagged frames (the TRR reader itself is C13)."""
    F, reverse = sh["F"], sh["reverse"]
    left, right = ctx.real("left"), ctx.real("right")
    ctx.assume(ctx.rel(left, "<", right))
    maxlen = ctx.int("maxlen", 2, sh["F"] + 1)
    world = {"calls": [], "closed": 0, "yielded": 0}
    e = igmx.GromacsEngine.__new__(igmx.GromacsEngine)
    ibase.EngineBase.__init__(e, "bare-gromacs", 1.0, 1)
    e._exe_dir = "/exe"
    e.ext = "g96"
    e.description = "gmx-stub"
    e.mdrun = "gmx mdrun -s {} -deffnm {} -c {}"
    e.input_files = {"input": "grompp.mdp"}
    e.timestep, e.subcycles, e.temperature = 1.0, 1, 300.0
    e.order_function = _OrderFn2(ctx, world)
    e._read_configuration = lambda f: (np.full((1, 3), 10.0), np.full((1, 3), 1.0), np.full(3, 100.0), None)
    e._modify_input = lambda *a, **k: None
    e._execute_grompp = lambda mdp, conf, name: {"tpr": f"{name}.tpr"}
    e._remove_files = lambda d, files: None
    e._remove_gromacs_backup_files = lambda d: None
    e.get_energies = lambda f: {"kinetic en.": np.arange(50.0), "potential": np.arange(50.0)}

    class _Runner:
        def __init__(self, cmd, trr, edr, exe_dir):
            self.trr = trr

        def __enter__(self):
            return self

        def __exit__(self, *a):
            world["closed"] += 1
            return False

        def get_gromacs_frames(self):
            for k in range(F):
                world["yielded"] += 1
                yield {"x": np.full((1, 3), 10.0 + k), "v": np.full((1, 3), 1.0 + k),
                       "box": np.diag([100.0 + k] * 3)}
    saved = igmx.GromacsRunner
    igmx.GromacsRunner = _Runner
    system = System()
    system.config = ("/exe/conf.g96", 0)
    system.vel_rev = reverse
    path = Path(maxlen=maxlen)

    class _Msg(_MsgFile):
        def flush(self):
            pass
    try:
        success, status = e._propagate_from("name", path, system, {"interfaces": (left, (left + right) / 2, right)},
                                            _Msg(), reverse=reverse)
    except core.Inconclusive:
        raise
    except (core._Abort, core._Stop, core._Skip):
        raise
    except Exception as ex:
        core.reraise_if_proxy_limitation(ex)
        ctx.fail("C12:no-unexpected-exception", repr(ex))
    finally:
        igmx.GromacsRunner = saved
    calls = world["calls"][1:]
    n = path.length
    stop_at = None
    for k in range(F):
        o = ctx.real(f"ord{k}")
        if (o < left) or (o > right) or (k + 1 == maxlen):
            stop_at = k
            break
    for k, pp in enumerate(path.phasepoints):
        ctx.check(pp.config == ("/exe/name.trr", k) and pp.vel_rev == reverse, "C12:frame-k-references-configuration-k", f"{pp.config}")
        c = calls[k]
        ctx.check(c["pos"] == k and c["vel"] == k, "C12:order-of-frame-k-computed-from-frame-k-coordinates", f"{c}")
        ok = c["vsign"] == (-1 if reverse else 1)
        ctx.check(ok, "C12:velocity-direction-of-the-frame-applied-once",
                  f"backward frame {k}: order computed with velocity sign {c['vsign']} (file velocities negated twice)",
                  known_key=None if ok else (KNOWN_GMX if reverse else None))
    ctx.check(world["closed"] == 1, "C12:external-program-is-stopped-when-propagation-ends", f"{world['closed']}")
    if stop_at is not None:
        ctx.check(n == stop_at + 1, "C12:stops-at-the-first-frame-outside-or-at-the-limit", f"{n} vs {stop_at + 1}")
        o = ctx.real(f"ord{stop_at}")
        ctx.check(success == ((o < left) or (o > right)), "C12:success-only-when-stopped-by-an-interface", f"{success}")
        ctx.cover("gromacs:stopped")
    else:
        ctx.check(n == F and not success, "C12:all-frames-of-a-completed-run-are-returned", f"{n} of {F}")
        ctx.cover("gromacs:exhausted")


# ------------------------------------------------------------------------------------------------ (3d) ASE in-process loop
def _ase(ctx, sh):
    """ASEEngine._propagate_from with a fake Atoms/calculator/integrator/Trajectory: two propagations on the SAME engine (the
    calculator object lives on the engine and keeps its results between calls). Frame k of each propagation must be written
    with, and integrated from, the energy/forces of configuration k of that propagation."""
    import infretis.classes.engines.ase_engine as iase
    F = sh["F"]
    left, right = ctx.real("left"), ctx.real("right")
    ctx.assume(ctx.rel(left, "<", right))
    maxlen = ctx.int("maxlen", 2, F + 1)
    log = {"written": [], "steps": [], "order_calls": []}

    class _Cell:
        def diagonal(self):
            return np.full(3, 100.0)

    class _Atoms:
        def __init__(self, run):
            self.run, self.state, self.calc, self.cell = run, 0, None, _Cell()

        @property
        def positions(self):
            return np.full((1, 3), 10.0 + self.state + 100.0 * self.run)

        def get_velocities(self):
            return np.full((1, 3), 1.0 + self.state)

        def get_kinetic_energy(self):
            return float(self.state)

    class _Calc:
        def __init__(self):
            self.results = {}

        def calculate(self, atoms):
            self.results = {"energy": ("E", atoms.run, atoms.state), "forces": ("F", atoms.run, atoms.state)}

    class _Dyn:
        def __init__(self, atoms, **k):
            self.atoms = atoms

        def step(self, forces=None):
            log["steps"].append((self.atoms.run, self.atoms.state, forces))
            self.atoms.state += 1
            self.atoms.calc.calculate(self.atoms)

    class _Traj:
        def __init__(self, f, mode):
            self.f = f

        def write(self, atoms, forces=None, energy=None, stress=None):
            log["written"].append((atoms.run, atoms.state, forces, energy))

        def close(self):
            pass

    class _OF:
        velocity_dependent = False

        def calculate(self, system):
            run, k = divmod(int(round(float(system.pos[0, 0]) - 10.0)), 100)
            log["order_calls"].append((run, k))
            return [ctx.real(f"ord{run}_{k}")]
    e = iase.ASEEngine.__new__(iase.ASEEngine)
    ibase.EngineBase.__init__(e, "bare-ase", 1.0, 1)
    e._exe_dir, e.subcycles, e.calc, e.Integrator, e.integrator_settings = "/exe", 1, _Calc(), _Dyn, {}
    e.order_function = _OF()
    runs = {"n": 0}

    def fake_read(f):
        a = _Atoms(runs["n"])
        runs["n"] += 1
        return a
    saved = {k: getattr(iase, k) for k in ("read", "Trajectory")}
    iase.read, iase.Trajectory = fake_read, _Traj
    results = []
    try:
        for run, reverse in enumerate((False, True)):
            system = System()
            system.config = (f"/exe/conf{run}.traj", 0)
            system.vel_rev = reverse
            path = Path(maxlen=maxlen)
            try:
                ok, status = e._propagate_from(f"name{run}", path, system, {"interfaces": (left, (left + right) / 2, right)},
                                               _MsgFile(), reverse=reverse)
            except core.Inconclusive:
                raise
            except (core._Abort, core._Stop, core._Skip):
                raise
            except Exception as ex:
                core.reraise_if_proxy_limitation(ex)
                ctx.fail("C12:no-unexpected-exception", repr(ex))
            results.append((path, ok))
    finally:
        for k, v in saved.items():
            setattr(iase, k, v)
    for run, (path, ok) in enumerate(results):
        wr = [w for w in log["written"] if w[0] == run]
        st = [s for s in log["steps"] if s[0] == run]
        ctx.check(len(wr) == path.length, "C12:trajectory-file-holds-exactly-the-path-frames", f"run {run}: {len(wr)} vs {path.length}")
        for k, pp in enumerate(path.phasepoints):
            ctx.check(pp.config == (f"/exe/name{run}.traj", k), "C12:frame-k-references-configuration-k", f"{pp.config}")
            ctx.check(wr[k][1] == k and wr[k][2] == ("F", run, k) and wr[k][3] == ("E", run, k),
                      "C12:frame-k-is-written-with-the-energy-and-forces-of-configuration-k",
                      f"run {run} frame {k}: written with {wr[k][2]}, {wr[k][3]}")
            ctx.check(bool(pp.order[0] == ctx.real(f"ord{run}_{k}")), "C12:stored-order-is-the-one-computed-for-that-frame")
        for s in st:
            ctx.check(s[2] == ("F", run, s[1]), "C12:each-integration-step-starts-from-the-forces-of-its-own-configuration",
                      f"run {run}: step from configuration {s[1]} used forces {s[2]}")
        stop_at = None
        for k in range(F + 1):
            o = ctx.real(f"ord{run}_{k}")
            if (o < left) or (o > right) or (k + 1 == maxlen):
                stop_at = k
                break
        ctx.check(stop_at is not None and path.length == stop_at + 1, "C12:stops-at-the-first-frame-outside-or-at-the-limit",
                  f"run {run}: {path.length}")
        if stop_at is not None:
            o = ctx.real(f"ord{run}_{stop_at}")
            ctx.check(ok == ((o < left) or (o > right)), "C12:success-only-when-stopped-by-an-interface", f"{ok}")
    ctx.cover("ase:two-propagations")
