"""H07 -- C07 (stream identity half) and the stream half of C06: every job gets its own random stream, a function of
(seed, allocation ordinal) only, also across chained restarts."""
from __future__ import annotations

import copy
import logging

import infretis.classes.repex as rx
from harness import hrx as X
from symx import core, rngmodel
from symx.rngmodel import BitGenModel, GenModel, _ident_eq

logging.disable(logging.CRITICAL)

PROPERTIES = ["C07", "C06"]
EXPLANATION = ("H07: REPEX_state.__init__/set_rgen/pick/pick_lock/prep_md_items/spawn_rng/write_toml run for real on a model of "
               "numpy's SeedSequence/BitGenerator (stream identity = (entropy, spawn_key), validated against numpy); the seed "
               "is a symbolic integer, the zero-swap coin symbolic, the finishing job nondeterministic; runs are stopped after a "
               "completed step and restarted from the real TOML round trip of the captured restart file, 0..2 times. Every "
               "stream allocation of the chained history is compared with f(seed, ordinal).")
ASSUMPTIONS = [
    "numpy derives a generator's numbers from (entropy, spawn_key) only (SeedSequence contract); the model's spawn() appends "
    "n_children_spawned as numpy does (checked against numpy in symx/selftest.py)",
    "which (path, ensemble) a pick returns does not influence stream identities: choice() returns the first admissible index; "
    "the zero-swap coin and the finishing job are explored",
    "stops happen right after a completed step (after write_toml, before the next pick)",
    "'every in-process draw comes from these streams' (data flow through ASE etc.) is outside; the numpy-based engines' draws "
    "are observed in H16; one spot check at the engine end: the seed handed to TurtleMD's stochastic integrator is the number "
    "drawn from the job's engine stream",
]
KNOWN_MW = "C07-multiworker-restart-stream-reuse"


class FirstGen(GenModel):
    def choice(self, n, p=None):
        n = int(n)
        if p is None:
            v = 0
        else:
            cand = [i for i in range(n) if p[i] > 0]
            if not cand:
                raise ValueError("probabilities do not sum to 1")
            v = cand[0]
        self._tick("choice", v)
        return v


def _default_rng(seed=None):
    return FirstGen(seed if isinstance(seed, BitGenModel) else BitGenModel(seed))


class _NS:
    SeedSequence = rngmodel.SeedSeqModel
    default_rng = staticmethod(_default_rng)


def install():
    X.install()
    rx.np._random_ns = _NS
    rx.default_rng = _default_rng


def functions():
    R = rx.REPEX_state
    return [rx.spawn_rng, R.__init__, R.set_rgen, R.pick, R.pick_lock, R.prep_md_items, R.write_toml, R.initiate, R.loop]


def bounds(tier, prop):
    q = tier == "quick"
    return {"workers": "1..3", "restarts in a chain": "0..2", "completed steps per segment": "1..2" if q else "1..3",
            "ensembles": "workers+1 (min 3)", "outside": "longer chains/segments (the allocation counter is the only state involved)"}


def instances(tier, prop):
    out = []
    q = tier == "quick"
    if prop == "C07":
        for extra in ("none", "seed-in-settings"):
            out.append({"kind": "turtle-seed", "extra": extra, "_cost": 1})
    for w in (1, 2, 3):
        for R in (0, 1, 2):
            segs = [(1,), (2,)] if R == 0 else None
            amax = 2 if q else 3
            import itertools
            for steps in itertools.product(range(1, amax + 1), repeat=R + 1):
                if w == 3 and sum(steps) > (4 if q else 5):
                    continue
                if w == 2 and sum(steps) > (5 if q else 6):
                    continue
                out.append({"kind": "chain", "w": w, "steps": list(steps), "_cost": (3 * w) ** sum(steps),
                            "_splitbits": (3 if q else 5) if (w >= 2 and sum(steps) >= 4) else 0})
    return out


EXPECT = ["chain:restarted", "chain:zero-swap-allocation", "chain:in-flight-at-stop", "chain:single-worker-restart"]


def expect(tier, prop):
    return EXPECT + (["engine-seed:checked"] if prop == "C07" else [])


def _ident_of(gen):
    return gen.bit_generator._seed_seq.ident


def _turtle_seed(ctx, sh):
    """data-flow spot check at the engine end: the seed TurtleMD's stochastic integrator gets is the number drawn from the
    job's engine stream (self.rgen), whatever the integrator settings contain."""
    import numpy as np
    import infretis.classes.engines.turtlemdengine as itmd
    from infretis.classes.path import Path
    from infretis.classes.system import System
    from symx.stubs import _NullMsgFile
    e = itmd.TurtleMDEngine.__new__(itmd.TurtleMDEngine)
    e._exe_dir, e.ext, e.dim, e.subcycles, e.timestep = "/exe", "xyz", 1, 1, 0.1
    e.boltzmann, e.temperature = 1.0, 1.0
    e.box, e.potential = object(), []
    e.mass, e.names = np.ones((1, 1)), ["A"]

    class _P:
        npart = 1
        mass = [1.0]
        name = ["A"]
    e.particles = _P()
    drawn = {}

    class _Rng:
        def integers(self, a, b=None):
            drawn["seed"] = ctx.int("drawn_seed", 0, 10 ** 9)
            return drawn["seed"]
    e.rgen = _Rng()
    got = {}

    def integrator(**kw):
        got.update(kw)
        return "integrator"
    e.integrator = integrator
    e.integrator_settings = {"gamma": 0.3, "beta": 1.0}
    if sh["extra"] == "seed-in-settings":
        e.integrator_settings["seed"] = 70
    e._read_configuration = lambda f: (np.zeros((1, 3)), np.zeros((1, 3)), np.ones(3), ["A"])
    e.calculate_order = lambda system, **k: [0.5]

    class _TP:
        def __init__(self, dim=1):
            self.npart = 1

        def add_particle(self, *a, **k):
            pass

    class _TS:
        def __init__(self, **k):
            self.box = type("B", (), {"length": np.ones(1)})()
            self.particles = type("PP", (), {"pos": np.zeros((1, 1)), "vel": np.zeros((1, 1)), "npart": 1})()

    class _Sim:
        def __init__(self, system=None, integrator=None, steps=0):
            got["integrator_obj"] = integrator

        def run(self):
            return iter(())
    saved = {k: getattr(itmd, k) for k in ("TParticles", "TSystem", "MDSimulation")}
    itmd.TParticles, itmd.TSystem, itmd.MDSimulation = _TP, _TS, _Sim
    system = System()
    system.config = ("/exe/conf.xyz", 0)
    raised = None
    try:
        e._propagate_from("name", Path(maxlen=3), system, {"interfaces": (0.0, 0.5, 1.0)}, _NullMsgFile(), reverse=False)
    except core.Inconclusive:
        raise
    except (core._Abort, core._Stop, core._Skip):
        raise
    except TypeError as ex:
        raised = ex          # a duplicate 'seed' keyword is refused outright: acceptable, nothing ran
    except Exception as ex:
        ctx.fail("C07:no-exception", repr(ex))
    finally:
        for k, v in saved.items():
            setattr(itmd, k, v)
    ctx.cover("engine-seed:checked")
    if raised is not None:
        return
    ctx.check("seed" in drawn and "seed" in got and got["seed"] is drawn["seed"],
              "C07:integrator-seed-is-the-number-drawn-from-the-job's-engine-stream", f"integrator got seed {got.get('seed')!r}")


def run_instance(ctx, sh):
    if sh.get("kind") == "turtle-seed":
        return _turtle_seed(ctx, sh)
    rngmodel.REG.ids.clear()
    X.PROP = "C07"
    w, steps = sh["w"], sh["steps"]
    k = max(3, w + 1)
    seed = ctx.int("seed", 0)
    world = X.World()
    cfg = X.base_config(k, w, ["sh"] * k, steps=10 ** 6, delete_old=False)
    cfg["simulation"]["seed"] = seed
    # the seed travels through TOML as an integer: keep a token-free copy for the file layer
    st = X.new_state(cfg, world)
    paths = [X.mk_minus_path(k, 0)] + [X.mk_plus_path(k, k - 1, 1, j) for j in range(1, k)]
    st.load_paths(paths)
    allocs = []      # every stream allocation of the chained history, in issue order
    sched_ident = (seed, ())

    def record(md, seg, reissued):
        for g, e in enumerate(md["ens_nums"]):
            pk = md["picked"][e]
            allocs.append({"seg": seg, "ens": e, "g": g, "move": _ident_of(pk["ens"]["rgen"]), "eng": _ident_of(pk["rgen-eng"]),
                           "job": len({a["job"] for a in allocs}) if g == 0 else allocs[-1]["job"], "reissued": reissued,
                           "w": w})
        if len(md["ens_nums"]) == 2:
            ctx.cover("chain:zero-swap-allocation")

    inflight = []
    md0 = X.md0_of(st)
    seg = 0
    try:
        while st.initiate():
            md = st.prep_md_items(copy.deepcopy(md0))
            inflight.append(md)
            record(md, seg, False)
        for si, a in enumerate(steps):
            for step in range(a):
                if not st.loop():
                    ctx.fail("C07:harness-run-ended-early")
                j = ctx.choice(len(inflight), "finishing-job")
                m = inflight.pop(j)
                m["status"] = "REJ"
                m["moves"], m["trial_len"], m["trial_op"], m["generated"] = ["sh"], [3], [(0.0, 1.0)], [("sh", 0, 0, 0)]
                pos_before = None
                st.treat_output(m)
                last = step == a - 1
                if last and si < len(steps) - 1:
                    break       # stop here: after write_toml, before the next pick
                md = st.prep_md_items(m)
                inflight.append(md)
                record(md, seg, False)
            if si == len(steps) - 1:
                break
            # ---- restart from the file written by the last treat_output
            saved_pos = st.rgen.bit_generator.pos
            saved_stream = st.rgen.bit_generator.stream
            n_inflight = len(inflight)
            if n_inflight:
                ctx.cover("chain:in-flight-at-stop")
            cfg2 = copy.deepcopy(world.tomls[-1])
            cfg2["current"]["restarted_from"] = cfg2["current"]["cstep"]
            if isinstance(cfg2["simulation"]["seed"], str):      # symbolic seed travelled as its exact token
                cfg2["simulation"]["seed"] = core.parse_number(cfg2["simulation"]["seed"])
            live = {t.path_number: t for t in st._trajs[:-1]}
            world = X.World()
            st = X.new_state(cfg2, world)
            ps = []
            for pn in cfg2["current"]["active"]:
                p = live[pn].copy()
                p.path_number = pn
                ps.append(p)
            st.load_paths(ps)
            seg += 1
            ctx.cover("chain:restarted")
            if w == 1:
                ctx.cover("chain:single-worker-restart")
            ctx.check(_ident_eq(st.rgen.bit_generator.stream, saved_stream) and st.rgen.bit_generator.pos == saved_pos,
                      "C06:scheduler-stream-restored-at-restart", f"{st.rgen.bit_generator.stream} pos {st.rgen.bit_generator.pos}")
            inflight = []
            md0 = X.md0_of(st)
            nre = len(st.locked0)
            ctx.check(nre == n_inflight, "C06:restart-file-records-the-in-flight-jobs", f"{nre} vs {n_inflight}")
            i = 0
            while st.initiate():
                md = st.prep_md_items(copy.deepcopy(md0))
                inflight.append(md)
                record(md, seg, i < nre)
                i += 1
            ctx.check(_ident_eq(st.rgen.bit_generator.stream, saved_stream), "C07:scheduler-keeps-its-own-stream",
                      f"{st.rgen.bit_generator.stream}")
    except core.Inconclusive:
        raise
    except (core._Abort, core._Stop, core._Skip):
        raise
    except Exception as e:
        core.reraise_if_proxy_limitation(e)
        ctx.fail("C07:no-exception", X._tb(e))
    # ---------------------------------------------------------------- the claims over the whole chained history
    multi = w >= 2 and len(steps) > 1

    def known(a):
        return KNOWN_MW if (multi and a["seg"] >= 1) else None
    for a in allocs:
        ent, key = a["move"]
        ctx.check(ent == seed, "C07:job-stream-is-a-function-of-the-seed", f"entropy {ent} alloc {a['job']} seg {a['seg']}")
        e2, key2 = a["eng"]
        ctx.check(e2 == seed and tuple(key2[:-1]) == tuple(key) and key2[-1] == 0,
                  "C07:engine-stream-is-the-child-of-the-move-stream", f"{a['eng']} vs {a['move']}")
        ctx.check(len(key) == 2 and key[1] == a["g"], "C07:one-grandchild-per-ensemble-of-a-job", f"{key} g={a['g']}")
        ok = key[0] == a["job"]
        ctx.check(ok, "C07:job-stream-is-a-function-of-the-allocation-ordinal",
                  f"child index {key[0]} for allocation #{a['job']} (segment {a['seg']}, re-issued {a['reissued']}, workers {w})",
                  known_key=None if ok else known(a))
        ctx.check(not _ident_eq(a["move"], sched_ident) and not _ident_eq(a["eng"], sched_ident),
                  "C07:job-never-shares-the-scheduler-stream")
    idents = [(a, "move", a["move"]) for a in allocs] + [(a, "eng", a["eng"]) for a in allocs]
    for i in range(len(idents)):
        for j in range(i + 1, len(idents)):
            a, _, x = idents[i]
            b, _, y = idents[j]
            same = _ident_eq(x, y)
            if same:
                later = a if a["seg"] >= b["seg"] else b
                ctx.check(False, "C07:no-two-jobs-share-a-stream",
                          f"allocation #{a['job']} (seg {a['seg']}) and #{b['job']} (seg {b['seg']}) both got {x}; workers {w}",
                          known_key=known(later))
