"""H20 -- C20: order parameters respect the symmetries of what they measure."""
from __future__ import annotations

import itertools
import logging
from fractions import Fraction

import numpy as np

import infretis.classes.orderparameter as iop
from infretis.classes.system import System
from symx import core, npfacade
from symx.core import Q, qconst
from symx.npfacade import Angle

logging.disable(logging.CRITICAL)

PROPERTIES = ["C20"]
EXPLANATION = ("H20: pbc_dist_coordinate and the calculate() methods of Distance, Distancevel, Position, Velocity, Dihedral, "
               "Puckering executed on symbolic coordinates, velocities, orthogonal box lengths, translation vectors, integer "
               "image shifts and rotations about the coordinate axes (c,s with s^2 -> 1-c^2 as a rewrite rule). sqrt is a fresh "
               "variable with rule y^2 -> radicand, arctan2 an opaque pair; invariance statements become identities of exact "
               "rational expressions; rint(d/L) forks over the integers it can take.")
ASSUMPTIONS = [
    "exact real arithmetic for floats; sqrt/arctan2/sin/cos never approximated (sin/cos of the fixed ring angles enter as the "
    "doubles numpy returns: the invariances checked are algebraic in the coordinates and hold for any such coefficients)",
    "dihedral/puckering periodic variants: base positions inside the primary cell (separations below one box length); "
    "orthogonal boxes with positive lengths; minimum-image ties |d| = L/2 excluded; |d/L| < 3.5 (image shifts -2..2 of points "
    "whose wrapped separation is below L/2... i.e. every rint candidate in -3..3)",
    "rotation invariance is checked for the generators (rotation about x, y, z), non-periodic variants",
    "degenerate geometries where the order parameter is undefined (division by a zero length) are excluded",
]
KNOWN_DV9 = "C20-distancevel-9-component-box"
OPTS = {"max_degree": 1, "solver_timeout_ms": 20000}


def install():
    npfacade.install(iop)


def uninstall():
    npfacade.uninstall(iop)


def functions():
    import infretis.classes.engines.enginebase as ibase
    return [ibase.EngineBase.calculate_order, iop.pbc_dist_coordinate, iop.Distance.calculate, iop.Distancevel.calculate, iop.Position.calculate,
            iop.Velocity.calculate, iop.Dihedral.calculate, iop.Puckering.calculate]


def bounds(tier, prop):
    return {"image shifts": "each shifted atom by m*L, m in -2..2 per axis (one axis at a time quick; all axes thorough)",
            "rint candidates": "-3..3", "rotations": "generators about x, y, z",
            "puckering": "five ring atoms at fixed generic rational positions, one atom (each in turn) and the translation / rotation symbolic; rotation and periodic variants on the thorough tier",
            "outside": "triclinic boxes; ties; |d/L| >= 3.5"}


def instances(tier, prop):
    out = []
    q = tier == "quick"
    out.append({"kind": "pbc", "_cost": 50})
    for op in ("distance", "distancevel"):
        for form in (3, 9):
            out.append({"kind": "engine-box", "op": op, "form": form, "_cost": 400})
    for op in ("distance", "distancevel"):
        for periodic in (False, True):
            out.append({"kind": "translate", "op": op, "periodic": periodic, "box": 3, "_cost": 100})
            if periodic:
                for axis in range(3):
                    for m in (-2, -1, 1, 2):
                        for atom in (0, 1):
                            out.append({"kind": "image", "op": op, "axis": axis, "m": m, "atom": atom, "_cost": 300})
                out.append({"kind": "box9", "op": op, "_cost": 100})
            else:
                for ax in "xyz":
                    out.append({"kind": "rotate", "op": op, "axis": ax, "_cost": 100})
        out.append({"kind": "velrev", "op": op, "_cost": 50})
    for op in ("position", "velocity"):
        out.append({"kind": "velrev", "op": op, "_cost": 10})
    wraps = [[0], [1], [2]] if q else [[0], [1], [2], [0, 1, 2]]
    out.append({"kind": "translate", "op": "dihedral", "periodic": False, "box": 3, "_cost": 300})
    for ax in "xyz":
        out.append({"kind": "rotate", "op": "dihedral", "axis": ax, "_cost": 3000})
    out.append({"kind": "velrev", "op": "dihedral", "_cost": 100})
    for wr in wraps:
        sb = 6 if len(wr) == 3 else 0
        out.append({"kind": "translate", "op": "dihedral", "periodic": True, "box": 3, "wrap": wr, "_cost": 3000 * 700 ** (len(wr) - 1),
                    "_splitbits": sb})
        out.append({"kind": "box9", "op": "dihedral", "wrap": wr, "_cost": 3000 * 700 ** (len(wr) - 1), "_splitbits": sb})
        if len(wr) == 1:
            for m in ((1, -2) if q else (-2, -1, 1, 2)):
                for atom in ((0, 1, 3) if q else (0, 1, 2, 3)):
                    out.append({"kind": "image", "op": "dihedral", "axis": wr[0], "m": m, "atom": atom, "wrap": wr, "_cost": 6000})
    for sym in ((0, 3) if q else range(6)):
        out.append({"kind": "translate", "op": "puckering", "periodic": False, "box": 3, "sym": sym, "_cost": 5000})
        out.append({"kind": "velrev", "op": "puckering", "sym": sym, "_cost": 3000})
    if not q:
        for sym in (0, 2, 5):
            for ax in "xyz":
                out.append({"kind": "rotate", "op": "puckering", "axis": ax, "sym": sym, "_cost": 50000})
            for wr in ([0], [1], [2]):
                out.append({"kind": "translate", "op": "puckering", "periodic": True, "box": 3, "wrap": wr, "sym": sym,
                            "_cost": 50000, "_splitbits": 2})
    return out


EXPECT = ["engine-box:checked", "pbc:wrapped", "pbc:unwrapped", "translate:distance", "image:distance", "rotate:distance", "velrev:distancevel",
          "box9:distance", "translate:dihedral", "rotate:dihedral", "translate:puckering", "unmodified:checked"]


def expect(tier, prop):
    return EXPECT


# ------------------------------------------------------------------------------------------------------------
NATOMS = {"distance": 2, "distancevel": 2, "position": 2, "velocity": 2, "dihedral": 4, "puckering": 6}


def _mk_op(op, periodic):
    if op == "distance":
        return iop.Distance((0, 1), periodic=periodic)
    if op == "distancevel":
        return iop.Distancevel((0, 1), periodic=periodic)
    if op == "position":
        return iop.Position((1, 2), periodic=False)
    if op == "velocity":
        return iop.Velocity(1, dim="y")
    if op == "dihedral":
        return iop.Dihedral((0, 1, 2, 3), periodic=periodic)
    if op == "puckering":
        return iop.Puckering((0, 1, 2, 3, 4, 5), periodic=periodic)
    raise ValueError(op)


def _arr(ctx, name, n):
    a = np.empty((n, 3), dtype=object)
    for i in range(n):
        for d in range(3):
            a[i, d] = ctx.real(f"{name}{i}{'xyz'[d]}")
    return a


def _system(pos, vel, box):
    s = System()
    s.pos, s.vel, s.box = pos, vel, box
    return s


def _same(a, b):
    if isinstance(a, Angle) or isinstance(b, Angle):
        return isinstance(a, Angle) and a.same(b)
    return bool(a == b)


def _calc(ctx, opf, system, label):
    before = [(arr, [x for x in arr.flat]) for arr in (system.pos, system.vel) if isinstance(arr, np.ndarray)]
    boxb = None if system.box is None else (system.box, [x for x in np.asarray(system.box, dtype=object).flat])
    try:
        out = opf.calculate(system)
    except core.Inconclusive:
        raise
    except (core._Abort, core._Stop, core._Skip):
        raise
    except ZeroDivisionError:
        # degenerate geometry (coincident atoms, zero normal vector): the order parameter is undefined there
        ctx.note("degenerate-geometry-excluded")
        raise core._Abort()
    except Exception as e:
        core.reraise_if_proxy_limitation(e)
        return None, e
    ok = all(arr is cur and all(x is y for x, y in zip(vals, arr.flat)) for (arr, vals), cur in zip(before, (system.pos, system.vel)))
    if boxb is not None:
        ok = ok and system.box is boxb[0] and all(x is y for x, y in zip(boxb[1], np.asarray(system.box, dtype=object).flat))
    ctx.check(ok, "C20:computing-an-order-parameter-does-not-modify-the-system", label)
    ctx.cover("unmodified:checked")
    return out, None


def _inbox(ctx, pos, L, wrap=(0, 1, 2)):
    """all atoms inside the primary cell: every separation is below one box length (rint candidates -1..1); along the
    axes not in `wrap` the atoms sit in the middle half of the cell, so that no minimum-image wrap occurs there."""
    for i in range(pos.shape[0]):
        for d in range(3):
            if d in wrap:
                ctx.assume(ctx.rel(pos[i, d], ">=", 0))
                ctx.assume(ctx.rel(pos[i, d], "<", L[d]))
            else:
                ctx.assume(ctx.rel(pos[i, d] * 4, ">=", L[d]))
                ctx.assume(ctx.rel(pos[i, d] * 4, "<", 3 * L[d]))


def _no_ties(ctx, op, pos, L):
    """minimum-image ties (a separation of exactly an odd multiple of L/2) are excluded: the image is ambiguous there."""
    pairs = {"distance": [(1, 0)], "distancevel": [(1, 0)], "dihedral": [(0, 1), (1, 2), (3, 2)],
             "puckering": [(i, 0) for i in range(1, 6)]}[op]
    for a, b in pairs:
        for d in range(3):
            delta = pos[a, d] - pos[b, d]
            for j in range(-7, 8, 2):
                ctx.assume(ctx.rel(2 * delta, "!=", j * L[d]))


def _box(ctx, comps=3):
    L = [ctx.real(f"L{'xyz'[d]}", lo=0) for d in range(3)]
    if comps == 3:
        b = np.empty(3, dtype=object)
        b[:] = L
    else:
        b = np.empty(9, dtype=object)
        b[:3] = L
        b[3:] = [qconst(0)] * 6
    return L, b


def run_instance(ctx, sh):
    kind = sh["kind"]
    if kind == "pbc":
        return _pbc(ctx)
    if kind == "engine-box":
        return _engine_box(ctx, sh)
    op = sh["op"]
    n = NATOMS[op]
    pos = _arr(ctx, "r", n)
    vel = _arr(ctx, "v", n)
    if op == "puckering":
        # five ring atoms at fixed generic rational positions (a distorted chair), one atom fully symbolic: keeps the
        # degree-6 invariants in a handful of variables (stated in bounds)
        ring = [(Fraction(14, 10), Fraction(1, 50), Fraction(23, 100)), (Fraction(7, 10), Fraction(121, 100), Fraction(-1, 4)),
                (Fraction(-7, 10), Fraction(6, 5), Fraction(21, 100)), (Fraction(-139, 100), Fraction(-1, 25), Fraction(-6, 25)),
                (Fraction(-18, 25), Fraction(-6, 5), Fraction(1, 4)), (Fraction(71, 100), Fraction(-123, 100), Fraction(-11, 50))]
        for i in range(6):
            if i != sh.get("sym", 0):
                for d in range(3):
                    pos[i, d] = qconst(ring[i][d])
                    vel[i, d] = qconst(0)
    if kind == "translate":
        periodic = sh["periodic"]
        opf = _mk_op(op, periodic)
        L, box = _box(ctx) if periodic else (None, None)
        if periodic and n > 2:
            _inbox(ctx, pos, L, tuple(sh.get('wrap', (0, 1, 2))))
        if periodic:
            _no_ties(ctx, op, pos, L)
        t = [ctx.real(f"t{'xyz'[d]}") for d in range(3)]
        pos2 = pos.copy()
        for i in range(n):
            for d in range(3):
                pos2[i, d] = pos[i, d] + t[d]
        a, e1 = _calc(ctx, opf, _system(pos, vel, box), "base")
        b, e2 = _calc(ctx, opf, _system(pos2, vel.copy(), box), "translated")
        if e1 or e2:
            ctx.fail("C20:no-exception", repr(e1 or e2))
        ctx.check(len(a) == len(b) and all(_same(x, y) for x, y in zip(a, b)), "C20:translation-invariance", op)
        ctx.cover(f"translate:{op}")
    elif kind == "image":
        opf = _mk_op(op, True)
        L, box = _box(ctx)
        if n > 2:
            _inbox(ctx, pos, L, tuple(sh.get('wrap', (0, 1, 2))))
        _no_ties(ctx, op, pos, L)
        pos2 = pos.copy()
        pos2[sh["atom"], sh["axis"]] = pos[sh["atom"], sh["axis"]] + sh["m"] * L[sh["axis"]]
        a, e1 = _calc(ctx, opf, _system(pos, vel, box), "base")
        b, e2 = _calc(ctx, opf, _system(pos2, vel.copy(), box), "shifted")
        if e1 or e2:
            ctx.fail("C20:no-exception", repr(e1 or e2))
        ctx.check(all(_same(x, y) for x, y in zip(a, b)), "C20:image-shift-invariance", f"{op} atom {sh['atom']} axis {sh['axis']} m {sh['m']}")
        ctx.cover(f"image:{op}")
    elif kind == "rotate":
        opf = _mk_op(op, False)
        c, s = ctx.rotation("rot")
        ax = "xyz".index(sh["axis"])
        i1, i2 = [(1, 2), (2, 0), (0, 1)][ax]

        def rot(arr):
            out = arr.copy()
            for i in range(arr.shape[0]):
                out[i, i1] = c * arr[i, i1] - s * arr[i, i2]
                out[i, i2] = s * arr[i, i1] + c * arr[i, i2]
            return out
        a, e1 = _calc(ctx, opf, _system(pos, vel, None), "base")
        b, e2 = _calc(ctx, opf, _system(rot(pos), rot(vel), None), "rotated")
        if e1 or e2:
            ctx.fail("C20:no-exception", repr(e1 or e2))
        ctx.check(all(_same(x, y) for x, y in zip(a, b)), "C20:rotation-invariance", f"{op} about {sh['axis']}")
        ctx.cover(f"rotate:{op}")
    elif kind == "velrev":
        opf = _mk_op(op, False)
        a, e1 = _calc(ctx, opf, _system(pos, vel, None), "base")
        b, e2 = _calc(ctx, opf, _system(pos.copy(), -vel, None), "reversed")
        if e1 or e2:
            ctx.fail("C20:no-exception", repr(e1 or e2))
        if opf.velocity_dependent:
            ok = all(bool(x == -y) for x, y in zip(a, b))
            ctx.check(ok, "C20:velocity-type-changes-sign-under-velocity-reversal", op)
        else:
            ctx.check(all(_same(x, y) for x, y in zip(a, b)), "C20:position-type-unchanged-under-velocity-reversal", op)
        ctx.check(opf.velocity_dependent == (op in ("distancevel", "velocity")), "C20:velocity-dependence-flag", op)
        ctx.cover(f"velrev:{op}")
    elif kind == "box9":
        opf = _mk_op(op, True)
        L, box3 = _box(ctx, 3)
        _, box9 = _box(ctx, 9)
        if n > 2:
            _inbox(ctx, pos, L, tuple(sh.get('wrap', (0, 1, 2))))
        _no_ties(ctx, op, pos, L)
        a, e1 = _calc(ctx, opf, _system(pos, vel, box3), "3-component box")
        b, e2 = _calc(ctx, opf, _system(pos.copy(), vel.copy(), box9), "9-component box")
        if e1:
            ctx.fail("C20:no-exception", repr(e1))
        if e2:
            ctx.check(False, "C20:accepts-3-and-9-component-boxes", f"{op}: {e2!r}",
                      known_key=KNOWN_DV9 if op == "distancevel" else None)
            return
        ctx.check(all(_same(x, y) for x, y in zip(a, b)), "C20:accepts-3-and-9-component-boxes", op)
        ctx.cover(f"box9:{op}")


def _engine_box(ctx, sh):
    """engines call EngineBase.calculate_order(system, xyz, vel, box) on ONE System object for every frame: the box handed in
    (3- or 9-component) is the one the periodic order parameter must use, whatever box the System carried before."""
    import infretis.classes.engines.enginebase as ibase
    from symx.stubs import ScriptEngine
    eng = ScriptEngine(ctx, 0)
    opf = _mk_op(sh["op"], True)
    eng.order_function = opf
    pos, vel = _arr(ctx, "r", 2), _arr(ctx, "v", 2)
    LA = [ctx.real(f"LA{d}", lo=0) for d in range(3)]
    LB = [ctx.real(f"LB{d}", lo=0) for d in range(3)]

    def mk(L):
        b = np.empty(sh["form"], dtype=object)
        b[:3] = L
        if sh["form"] == 9:
            b[3:] = [qconst(0)] * 6
        return b
    system = System()
    system.vel_rev = False
    try:
        calc = lambda s, **k: ibase.EngineBase.calculate_order(eng, s, **k)
        system.box = mk(LA)          # the box of the previous frame (set directly: computing an order parameter with it
        boxB = mk(LB)                #  would only multiply the wrap patterns of the two boxes)
        second = calc(system, xyz=pos, vel=vel, box=boxB)
        fresh = System()
        fresh.vel_rev = False
        ref = calc(fresh, xyz=pos, vel=vel, box=mk(LB))
    except core.Inconclusive:
        raise
    except (core._Abort, core._Stop, core._Skip):
        raise
    except ZeroDivisionError:
        ctx.note("degenerate-geometry-excluded")
        raise core._Abort()
    except Exception as e:
        core.reraise_if_proxy_limitation(e)
        ctx.fail("C20:no-exception", repr(e))
    ctx.check(system.box is boxB, "C20:engine-hands-the-frame's-own-box-to-the-order-parameter", "system.box is not the box passed in")
    ctx.check(all(_same(x, y) for x, y in zip(second, ref)), "C20:order-parameter-uses-the-frame's-own-box",
              f"{sh['op']} with a box differing from the one the System carried before")
    ctx.cover("engine-box:checked")


def _pbc(ctx):
    L = np.empty(3, dtype=object)
    d = np.empty(3, dtype=object)
    for i in range(3):
        L[i] = ctx.real(f"L{i}", lo=0)
        d[i] = ctx.real(f"d{i}")
    before = [x for x in d]
    out = iop.pbc_dist_coordinate(d, L)
    ctx.check(all(x is y for x, y in zip(before, d)), "C20:pbc-does-not-modify-its-input")
    for i in range(3):
        ctx.check(abs(out[i]) <= L[i] / 2, "C20:minimum-image-within-half-a-box-length", f"axis {i}")
        k = (d[i] - out[i]) / L[i]
        # the correction is an integer number of box lengths
        ok = any(bool(k == n) for n in range(-3, 4))
        ctx.check(ok, "C20:wrapped-distance-differs-by-whole-box-lengths", f"axis {i}")
        ctx.cover("pbc:unwrapped" if out[i] is d[i] or bool(out[i] == d[i]) else "pbc:wrapped")
