"""H15 -- C15: path algebra (paste, reverse, copy, classification)."""
from __future__ import annotations

import infretis.classes.path as ipath
from infretis.classes.system import System
from symx import core, npfacade
from symx.stubs import mk_path, orders_of, tags_of

PROPERTIES = ["C15"]
EXPLANATION = ("H15: paste_paths, Path.reverse/copy/__iadd__/append/empty_path, check_interfaces, get_start_point, "
               "get_end_point, ordermin/ordermax, success and System.copy executed on paths with symbolic order values, "
               "symbolic integer length limits / time origins and symbolic interface triples; compared with a list-level "
               "specification of paste/reverse and with extreme-value classification.")
ASSUMPTIONS = [
    "order parameters are finite reals (nan/inf outside)",
    "interface triple sorted left <= middle <= right (equalities included, as in [0+] and [0-])",
    "length limits are non-negative integers or None",
]


def install():
    npfacade.install(ipath)


def uninstall():
    npfacade.uninstall(ipath)


def functions():
    P = ipath.Path
    return [ipath.paste_paths, P.reverse, P.copy, P.__iadd__, P.append, P.empty_path, P.check_interfaces,
            P.get_start_point, P.get_end_point, P.ordermin.fget, P.ordermax.fget, P.success, System.copy]


def bounds(tier, prop):
    n = 4 if tier == "quick" else 6
    return {"segment lengths a,b in": f"0..{n}", "path length for reverse/copy/classification <=": n + 1,
            "outside": "longer segments (the code is a plain loop over frames; nothing changes with length)"}


def instances(tier, prop):
    out = []
    n = 4 if tier == "quick" else 6
    for a in range(0, n + 1):
        for b in range(0, n + 1):
            for overlap in (True, False):
                for mode in ("given", "equal", "unequal", "none"):
                    out.append({"kind": "paste", "a": a, "b": b, "overlap": overlap, "mode": mode, "_cost": a + b})
    for L in range(0, n + 2):
        for rev_v in (True, False):
            for of in ("none", "posdep", "veldep"):
                out.append({"kind": "reverse", "L": L, "rev_v": rev_v, "of": of, "_cost": 2 ** L})
        out.append({"kind": "copy", "L": L, "_cost": L})
        if L >= 1:
            out.append({"kind": "classify", "L": L, "_cost": 4 ** L * 10, "_splitbits": 5 if L >= 6 else 0})
    for L in range(0, 4):
        for M in range(0, 4):
            out.append({"kind": "iadd", "L": L, "M": M, "_cost": L + M})
    return out


EXPECT = ["paste:truncated", "paste:complete", "paste:truncated-in-backward", "reverse:recomputed", "classify:start=?",
          "classify:equal-interfaces-hit", "iadd:truncated", "append:refused"]


def run_instance(ctx, shape):
    k = shape["kind"]
    return {"paste": _paste, "reverse": _reverse, "copy": _copy, "classify": _classify, "iadd": _iadd}[k](ctx, shape)


def _paste(ctx, sh):
    a, b, overlap, mode = sh["a"], sh["b"], sh["overlap"], sh["mode"]
    ob = [ctx.real(f"b{i}") for i in range(a)]
    of = [ctx.real(f"f{i}") for i in range(b)]
    t0 = ctx.int("t0", -5, 5)
    back = mk_path(ob, tagprefix="B")
    forw = mk_path(of, tagprefix="F")
    back.time_origin = t0
    limit = None
    if mode == "given":
        limit = ctx.int("maxlen", 0, a + b + 2)
        back.maxlen, forw.maxlen = 1000, 7
        args = {"maxlen": limit}
    elif mode == "equal":
        limit = ctx.int("maxlen", 0, a + b + 2)
        back.maxlen = forw.maxlen = limit
        args = {}
    elif mode == "unequal":
        m1 = ctx.int("m1", 0, a + b + 2)
        m2 = ctx.int("m2", 0, a + b + 2)
        ctx.assume(ctx.rel(m1, "!=", m2))
        back.maxlen, forw.maxlen = m1, m2
        limit = m1 if m1 > m2 else m2
        args = {}
    else:
        back.maxlen = forw.maxlen = None
        args = {}
    before_b, before_f = list(back.phasepoints), list(forw.phasepoints)
    try:
        new = ipath.paste_paths(back, forw, overlap=overlap, **args)
    except Exception as e:
        core.reraise_if_proxy_limitation(e)
        ctx.fail("C15:paste-no-exception", repr(e))
        return
    full = [("B", i) for i in reversed(range(a))] + [("F", i) for i in range(1 if overlap else 0, b)]
    if limit is None:
        exp_len = len(full)
    else:
        exp_len = len(full) if limit >= len(full) else ctx.concretize(limit)
    ctx.check(new.length == exp_len, "C15:paste-length", lambda: f"got {new.length} expected {exp_len} of {len(full)}")
    ctx.check(tags_of(new) == full[:exp_len], "C15:paste-frames-time-ordered",
              lambda: f"got {tags_of(new)} expected {full[:exp_len]}")
    exp_orders = ([ob[i] for i in reversed(range(a))] + of[(1 if overlap else 0):])[:exp_len]
    ctx.check(len(exp_orders) == new.length and all(x is y for x, y in zip(orders_of(new), exp_orders)), "C15:paste-orders")
    if a > 0 and exp_len > 0:
        ctx.check(new.phasepoints[0] is back.phasepoints[-1], "C15:paste-begins-with-last-backward-frame")
    ctx.check(new.time_origin == t0 - a + 1, "C15:paste-time-origin")
    ctx.check(back.phasepoints == before_b and forw.phasepoints == before_f, "C15:paste-leaves-inputs")
    if limit is not None:
        ctx.check(new.maxlen == limit, "C15:paste-maxlen")
        ctx.check(new.length <= limit, "C15:paste-respects-limit")
    if exp_len < len(full):
        ctx.cover("paste:truncated")
        if exp_len < a:
            ctx.cover("paste:truncated-in-backward")
    else:
        ctx.cover("paste:complete")


class _OF:
    def __init__(self, veldep):
        self.velocity_dependent = veldep
        self.calls = 0

    def calculate(self, system):
        self.calls += 1
        base = system.base
        return [-base if (self.velocity_dependent and system.vel_rev) else base]


def _reverse(ctx, sh):
    L, rev_v, ofk = sh["L"], sh["rev_v"], sh["of"]
    base = [ctx.real(f"o{i}") for i in range(L)]
    flags = [bool(ctx.choice(2, f"vel_rev{i}")) for i in range(L)]
    of = None if ofk == "none" else _OF(ofk == "veldep")
    path = mk_path(base)
    for pp, fl, bv in zip(path.phasepoints, flags, base):
        pp.vel_rev = fl
        pp.base = bv
        if of is not None:
            pp.order = of.calculate(pp)
    path.weights = (1.0, 0.0)
    path.maxlen = 17
    snap = [(pp, pp.order, pp.order[0], pp.vel_rev, pp.config) for pp in path.phasepoints]
    try:
        r1 = path.reverse(of, rev_v=rev_v)
        r2 = r1.reverse(of, rev_v=rev_v)
    except Exception as e:
        core.reraise_if_proxy_limitation(e)
        ctx.fail("C15:reverse-no-exception", repr(e))
        return
    ctx.check(tags_of(r1) == list(reversed(tags_of(path))), "C15:reverse-frame-order")
    ctx.check([pp.vel_rev for pp in r1.phasepoints] == [(not f) if rev_v else f for f in reversed(flags)],
              "C15:reverse-flips-velocity-flags", lambda: f"{[pp.vel_rev for pp in r1.phasepoints]} from {flags}")
    ctx.check([pp.config for pp in r1.phasepoints] == [pp.config for pp in reversed(path.phasepoints)],
              "C15:reverse-keeps-config")
    # reversing twice restores the frames
    ok = r2.length == L and all(
        x.config == y.config and x.vel_rev == y.vel_rev and x.order[0] == y.order[0]
        for x, y in zip(r2.phasepoints, path.phasepoints))
    ctx.check(ok, "C15:reverse-twice-is-identity")
    # the original is untouched, and the new frames are new objects
    same = all(pp is s[0] and pp.order is s[1] and pp.order[0] is s[2] and pp.vel_rev == s[3] and pp.config == s[4]
               for pp, s in zip(path.phasepoints, snap)) and len(path.phasepoints) == L
    ctx.check(same, "C15:reverse-leaves-original")
    ctx.check(all(not any(n is o for o in path.phasepoints) for n in r1.phasepoints), "C15:reverse-copies-frames")
    ctx.check(r1.weights == path.weights and r1.maxlen == path.maxlen, "C15:reverse-metadata")
    if of is not None:
        # stored order parameters are consistent with each new frame's own velocity direction
        okc = all(pp.order[0] == of.calculate(pp)[0] for pp in r1.phasepoints)
        ctx.check(okc, "C15:reverse-order-consistent-with-velocity-direction")
        if of.velocity_dependent and rev_v and L > 0:
            ctx.cover("reverse:recomputed")
    else:
        ctx.check(all(x is y for x, y in zip(orders_of(r1), reversed(orders_of(path)))), "C15:reverse-orders")


def _copy(ctx, sh):
    L = sh["L"]
    orders = [ctx.real(f"o{i}") for i in range(L)]
    path = mk_path(orders, maxlen=ctx.int("maxlen", L, L + 3))
    path.status, path.time_origin, path.generated = "ACC", 4, ("sh", 0.0, 1, 2)
    path.path_number, path.weights = 12, (1.0, 1.0, 0.0)
    snap = [(pp.order, pp.config, pp.vel_rev, pp.vpot, pp.ekin, pp.pos, pp.vel, pp.box) for pp in path.phasepoints]
    c = path.copy()
    ctx.check(c is not path and c.length == L and all(x is not y for x, y in zip(c.phasepoints, path.phasepoints)),
              "C15:copy-new-frames")
    ctx.check((c.status, c.time_origin, c.generated, c.path_number, c.weights) ==
              (path.status, path.time_origin, path.generated, path.path_number, path.weights) and
              bool(c.maxlen == path.maxlen), "C15:copy-metadata")
    newval = ctx.real("new")
    for pp in c.phasepoints:
        pp.order = [newval]
        pp.config = ("other", 99)
        pp.vel_rev = not pp.vel_rev
        pp.vpot = 1.5
        pp.ekin = 2.5
        pp.pos = "P"
        pp.vel = "V"
        pp.box = "B"
    ok = all((pp.order is s[0] and pp.config == s[1] and pp.vel_rev == s[2] and pp.vpot is s[3] and pp.ekin is s[4]
              and pp.pos is s[5] and pp.vel is s[6] and pp.box is s[7]) for pp, s in zip(path.phasepoints, snap))
    ctx.check(ok, "C15:assigning-copied-frame-fields-leaves-original")
    s = System()
    s.order = [newval]
    s2 = s.copy()
    s2.order = [newval + 1]
    ctx.check(s.order[0] is newval, "C15:system-copy")


def _iadd(ctx, sh):
    L, M = sh["L"], sh["M"]
    p = mk_path([ctx.real(f"o{i}") for i in range(L)], tagprefix="P")
    q = mk_path([ctx.real(f"q{i}") for i in range(M)], tagprefix="Q")
    limit = ctx.int("maxlen", L, L + M + 1)
    p.maxlen = limit
    p += q
    exp = [("P", i) for i in range(L)] + [("Q", i) for i in range(M)]
    n = len(exp) if limit >= len(exp) else ctx.concretize(limit)
    ctx.check(tags_of(p) == exp[:n], "C15:iadd-appends-in-order", lambda: f"{tags_of(p)} vs {exp[:n]}")
    ctx.check(all(not any(x is y for y in q.phasepoints) for x in p.phasepoints[L:]), "C15:iadd-copies")
    if n < len(exp):
        ctx.cover("iadd:truncated")
        r = p.append(q.phasepoints[0]) if M else True
        ctx.check(r is False and p.length == n, "C15:append-refused-at-limit")
        ctx.cover("append:refused")
    e = p.empty_path(maxlen=3)
    ctx.check(type(e) is type(p) and e.length == 0 and e.maxlen == 3 and e.time_origin == 0, "C15:empty-path")


def _classify(ctx, sh):
    L = sh["L"]
    o = [ctx.real(f"o{i}") for i in range(L)]
    left, mid, right = ctx.real("left"), ctx.real("mid"), ctx.real("right")
    ctx.assume(ctx.rel(left, "<=", mid))
    ctx.assume(ctx.rel(mid, "<=", right))
    path = mk_path(o)
    try:
        start, end, middle, cross = path.check_interfaces([left, mid, right])
        s1 = path.get_start_point(mid)
        e1 = path.get_end_point(mid)
        omin, omax = path.ordermin, path.ordermax
        succ = path.success(mid)
    except Exception as e:
        core.reraise_if_proxy_limitation(e)
        ctx.fail("C15:classify-no-exception", repr(e))
        return
    # oracle from extreme values
    mn, mx, imn, imx = o[0], o[0], 0, 0
    for i, x in enumerate(o):
        if x < mn:
            mn, imn = x, i
        if x > mx:
            mx, imx = x, i
    ctx.check(omin[0] is o[imn] and int(omin[1]) == imn and omax[0] is o[imx] and int(omax[1]) == imx,
              "C15:ordermin-ordermax", lambda: f"{omin} {omax} vs idx {imn} {imx}")
    exp_start = "L" if o[0] <= left else ("R" if o[0] >= right else "?")
    exp_end = "L" if o[-1] <= left else ("R" if o[-1] >= right else None)
    ctx.check(start == exp_start and end == exp_end, "C15:start-end-classification",
              lambda: f"{start},{end} vs {exp_start},{exp_end}")
    exp_cross = [(mn < lam) and (lam <= mx) for lam in (left, mid, right)]
    ctx.check(list(cross) == exp_cross and middle == ("M" if exp_cross[1] else "*"), "C15:crossing-classification",
              lambda: f"{cross} {middle} vs {exp_cross}")
    ctx.check(s1 == ("L" if o[0] <= mid else "R") and e1 == ("L" if o[-1] <= mid else "R"), "C15:single-interface-sides")
    ctx.check(succ == (mx > mid), "C15:success")
    if start == "?":
        ctx.cover("classify:start=?")
    if left == right and o[0] == left:
        ctx.cover("classify:equal-interfaces-hit")
    ep = path.empty_path()
    ctx.check(ep.check_interfaces([left, mid, right]) == (None, None, "*", [False] * 3), "C15:empty-classification")
