"""H17 -- C17 (step arithmetic half): exactly the requested number of moves runs; each result is consumed once."""
from __future__ import annotations

import copy
import logging

import infretis.classes.repex as rx
import infretis.scheduler as isched
from harness import h07, hrx as X
from symx import core, rngmodel

logging.disable(logging.CRITICAL)

PROPERTIES = ["C17"]
EXPLANATION = ("H17: infretis.scheduler.scheduler with the real REPEX_state (initiate, loop, prep_md_items, treat_output, "
               "write_toml, pick_lock) driven by a fake runner/futures pair whose completion order is nondeterministic; the "
               "requested step count and the restart point are symbolic integers (the loop is unrolled by forking on "
               "cstep >= steps). Counts of submissions, consumed results, the step counter in every captured restart file "
               "and the jobs left in flight at runner.stop() are compared with the requested numbers; then the run is "
               "continued from its restart file with a larger symbolic step count.")
ASSUMPTIONS = [
    "remaining steps (steps - restart point) >= workers, the property's 'step count not smaller than the worker count'",
    "the task runner is replaced by a fake that completes any outstanding job next; of the real runner only "
    "future_list.as_completed is executed (with futures whose done() flips nondeterministically); aiorunner itself -- asyncio "
    "thread + process pool -- is outside this technique",
    "moves are rejected (the outcome does not enter the step arithmetic); picks take the first admissible index",
    "setup_config's stop rule (file reading) outside",
]


def install():
    h07.install()


def functions():
    R = rx.REPEX_state
    from infretis.asyncrunner import future_list
    return [future_list.as_completed, future_list.add, isched.scheduler, R.loop, R.initiate, R.prep_md_items, R.treat_output, R.write_toml, R.pick_lock, R.pick]


def bounds(tier, prop):
    r = "6/5/4 for 1/2/3 workers" if tier == "quick" else "9/7/6 for 1/2/3 workers"
    return {"workers": "1..3", "remaining steps per run": f"workers..{r} (symbolic)", "restart point": "symbolic integer in [0,4]",
            "continuation": "second run with workers(+1) further steps; crash variant: death after 1..2 completed moves",
            "outside": "larger step counts (same loop body)"}


def instances(tier, prop):
    out = [{"kind": "futures", "n": n, "_cost": 4 ** n} for n in (1, 2, 3)]
    for w in (1, 2, 3):
        r = ({1: 6, 2: 5, 3: 4} if tier == "quick" else {1: 9, 2: 7, 3: 6})[w]
        c = w if tier == "quick" else w + 1
        out.append({"w": w, "rmax": r, "cont": c, "_cost": (w + 1) ** r * 50, "_splitbits": 4 if w >= 2 else 2})
        out.append({"w": w, "rmax": r + 1, "cont": 0, "crash": True, "_cost": (w + 1) ** r * 20, "_splitbits": 4 if w >= 2 else 2})
    return out


EXPECT = ["futures:all-delivered", "run:finished", "run:continued", "run:restarted-with-in-flight"]


class _Crash(Exception):
    """the main process dies right after a completed step (restart file written)."""


class _Fut:
    def __init__(self, md, rec):
        self.md, self.rec, self.consumed = md, rec, 0

    def result(self):
        self.consumed += 1
        md = self.md
        md["status"] = "REJ"
        md["moves"], md["trial_len"], md["trial_op"], md["generated"] = ["sh"], [3], [(0.0, 1.0)], [("sh", 0, 0, 0)]
        return md


class _Runner:
    def __init__(self, ctx, rec):
        self.ctx, self.rec = ctx, rec
        self.stopped = False

    def submit_work(self, md):
        f = _Fut(md, self.rec)
        self.rec["submitted"].append(f)
        self.rec["outstanding"].append(f)
        return f

    def stop(self):
        self.stopped = True
        self.rec["left_at_stop"] = len(self.rec["outstanding"])


class _Futures:
    def __init__(self, ctx, rec):
        self.ctx, self.rec, self.lst = ctx, rec, []

    def add(self, f):
        self.lst.append(f)

    def as_completed(self):
        if not self.lst:
            self.rec["empty_polls"] += 1
            return None
        i = self.ctx.choice(len(self.lst), "completes-next")
        f = self.lst.pop(i)
        self.rec["outstanding"].remove(f)
        return f


def _run(ctx, cfg, paths_by_pn, rec, world=None):
    world = world or X.World()

    def setup_internal(config):
        st = X.new_state(config, world)
        ps = []
        for pn in config["current"]["active"]:
            p = paths_by_pn[pn].copy()
            p.path_number = pn
            ps.append(p)
        st.load_paths(ps)
        rec["state"] = st
        real_treat = st.treat_output

        def treat(md):
            rec["treated"] += 1
            out = real_treat(md)
            rec["cstep_in_restart_file"].append((world.tomls[-1]["current"]["cstep"], rec["treated"]))
            if rec.get("crash_after") == rec["treated"]:
                raise _Crash()
            return out
        st.treat_output = treat
        return X.md0_of(st), st

    def setup_runner(state):
        return _Runner(ctx, rec), _Futures(ctx, rec)
    saved = (isched.setup_internal, isched.setup_runner)
    isched.setup_internal, isched.setup_runner = setup_internal, setup_runner
    try:
        isched.scheduler(cfg)
    finally:
        isched.setup_internal, isched.setup_runner = saved
    return world


def _fresh_rec():
    return {"submitted": [], "outstanding": [], "treated": 0, "cstep_in_restart_file": [], "empty_polls": 0, "left_at_stop": None}


def _futures(ctx, sh):
    """the real future_list: whatever the completion timing, every future is handed out exactly once, only when done."""
    from infretis.asyncrunner import future_list
    n = sh["n"]

    class F:
        def __init__(self, i):
            self.i, self.is_done, self.asked = i, False, 0

        def done(self):
            self.asked += 1
            if not self.is_done:
                # it may have finished since the last look; after a few looks it has
                self.is_done = bool(ctx.choice(2, f"done{self.i}")) or self.asked >= 3
            return self.is_done
    fl = future_list()
    futs = [F(i) for i in range(n)]
    for f in futs:
        fl.add(f)
    got = []
    for _ in range(n):
        r = fl.as_completed()
        ctx.check(r is not None, "C17:a-finished-unit-is-delivered", f"got None with {n - len(got)} outstanding")
        ctx.check(r.is_done, "C17:only-finished-units-are-delivered", f"{r.i}")
        ctx.check(r.i not in got, "C17:each-result-delivered-exactly-once", f"{r.i} twice")
        got.append(r.i)
    ctx.check(fl.as_completed() is None and sorted(got) == list(range(n)), "C17:every-unit-is-delivered-exactly-once", f"{got}")
    ctx.cover("futures:all-delivered")


def run_instance(ctx, sh):
    if sh.get("kind") == "futures":
        return _futures(ctx, sh)
    rngmodel.REG.ids.clear()
    X.PROP = "C17"
    w = sh["w"]
    k = max(3, w + 1)
    c0 = ctx.int("restart_point", 0, 4)
    r = ctx.int("remaining", w, sh["rmax"])
    N = c0 + r
    cfg = X.base_config(k, w, ["sh"] * k, steps=N, delete_old=False)
    cfg["current"]["cstep"] = c0
    paths = {0: X.mk_minus_path(k, 0)}
    for j in range(1, k):
        paths[j] = X.mk_plus_path(k, k - 1, 1, j)
    rec = _fresh_rec()
    if sh.get("crash"):
        # ---- variant: the run dies after m completed moves with jobs in flight, and is restarted from its restart file
        m = 1 + ctx.choice(2, "crash-after")
        ctx.assume(ctx.rel(r, ">=", m + w))
        rec["crash_after"] = m
        world = X.World()
        try:
            _run(ctx, cfg, paths, rec, world)
            ctx.fail("C17:harness-crash-not-reached")
        except _Crash:
            pass
        cfgc = copy.deepcopy(world.tomls[-1])
        for sec, key in (("current", "cstep"), ("simulation", "steps")):
            if isinstance(cfgc[sec][key], str):
                cfgc[sec][key] = core.parse_number(cfgc[sec][key])
        ctx.check(len(cfgc["current"]["locked"]) == w - 1, "C17:restart-file-records-jobs-in-flight", f"{cfgc['current']['locked']}")
        cfgc["current"]["restarted_from"] = cfgc["current"]["cstep"]
        st = rec["state"]
        pathsc = {t.path_number: t for t in st._trajs[:-1]}
        recc = _fresh_rec()
        worldc = X.World()
        try:
            _run(ctx, cfgc, pathsc, recc, worldc)
        except core.Inconclusive:
            raise
        except (core._Abort, core._Stop, core._Skip):
            raise
        except Exception as e:
            core.reraise_if_proxy_limitation(e)
            ctx.fail("C17:no-exception", X._tb(e))
        _claims(ctx, recc, c0 + m, r - m, N, w, "after-crash")
        if w >= 2:
            ctx.cover("run:restarted-with-in-flight")
        # the run that was restarted after the death is finished now: nothing may be recorded as in flight, and it can be
        # continued with a larger step count like any other finished run
        cfgd = copy.deepcopy(worldc.tomls[-1])
        for sec, key in (("current", "cstep"), ("simulation", "steps")):
            if isinstance(cfgd[sec][key], str):
                cfgd[sec][key] = core.parse_number(cfgd[sec][key])
        ctx.check(cfgd["current"]["locked"] == [], "C17:finished-run-records-no-job-in-flight",
                  f"after crash+restart: {cfgd['current']['locked']}")
        cfgd["current"]["restarted_from"] = cfgd["current"]["cstep"]
        cfgd["simulation"]["steps"] = N + w
        std = recc["state"]
        pathsd = {t.path_number: t for t in std._trajs[:-1]}
        recd = _fresh_rec()
        try:
            _run(ctx, cfgd, pathsd, recd)
        except core.Inconclusive:
            raise
        except (core._Abort, core._Stop, core._Skip):
            raise
        except Exception as e:
            core.reraise_if_proxy_limitation(e)
            ctx.fail("C17:restarting-with-a-larger-step-count-continues", X._tb(e))
        _claims(ctx, recd, N, w, N + w, w, "continued-after-crash")
        return
    try:
        world = _run(ctx, cfg, paths, rec)
    except core.Inconclusive:
        raise
    except (core._Abort, core._Stop, core._Skip):
        raise
    except Exception as e:
        core.reraise_if_proxy_limitation(e)
        ctx.fail("C17:no-exception", X._tb(e))
    _claims(ctx, rec, c0, r, N, w, "first")
    ctx.cover("run:finished")
    # ---- continue from the restart file with a larger step count
    d = ctx.int("further", w, sh["cont"])
    cfg2 = copy.deepcopy(world.tomls[-1])
    for key in ("cstep",):
        if isinstance(cfg2["current"][key], str):
            cfg2["current"][key] = core.parse_number(cfg2["current"][key])
    if isinstance(cfg2["simulation"]["steps"], str):
        cfg2["simulation"]["steps"] = core.parse_number(cfg2["simulation"]["steps"])
    ctx.check(cfg2["current"]["cstep"] == N, "C17:final-restart-file-has-cstep==steps", f"{cfg2['current']['cstep']}")
    ctx.check(cfg2["current"]["locked"] == [], "C17:finished-run-records-no-job-in-flight", f"{cfg2['current']['locked']}")
    cfg2["current"]["restarted_from"] = cfg2["current"]["cstep"]
    cfg2["simulation"]["steps"] = N + d
    st = rec["state"]
    paths2 = {t.path_number: t for t in st._trajs[:-1]}
    rec2 = _fresh_rec()
    try:
        _run(ctx, cfg2, paths2, rec2)
    except core.Inconclusive:
        raise
    except (core._Abort, core._Stop, core._Skip):
        raise
    except Exception as e:
        core.reraise_if_proxy_limitation(e)
        ctx.fail("C17:no-exception", X._tb(e))
    _claims(ctx, rec2, N, d, N + d, w, "continued")
    ctx.cover("run:continued")


def _claims(ctx, rec, c0, r, N, w, tag):
    st = rec["state"]
    ctx.check(rec["treated"] == r, "C17:exactly-the-requested-number-of-moves-completed", f"{tag}: {rec['treated']} vs remaining")
    ctx.check(len(rec["submitted"]) == r, "C17:exactly-as-many-jobs-submitted-as-moves-requested",
              f"{tag}: {len(rec['submitted'])}")
    ctx.check(st.cstep == N, "C17:final-step-counter==steps", f"{tag}: {st.cstep}")
    ctx.check(rec["left_at_stop"] == 0 and not rec["outstanding"], "C17:no-job-in-flight-at-runner.stop", f"{tag}: {rec['left_at_stop']}")
    ctx.check(all(f.consumed == 1 for f in rec["submitted"]), "C17:each-result-consumed-exactly-once",
              f"{tag}: {[f.consumed for f in rec['submitted']]}")
    ctx.check(rec["empty_polls"] == 0, "C17:the-loop-never-polls-an-empty-future-list", f"{tag}: {rec['empty_polls']}")
    for cs, done in rec["cstep_in_restart_file"]:
        cs = core.parse_number(cs) if isinstance(cs, str) else cs
        ctx.check(cs == c0 + done, "C17:restart-file-step-counter==completed-moves", f"{tag}: cstep {cs} after {done} moves")
