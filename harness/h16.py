"""H16 -- C16 (algebraic half): velocity regeneration changes only velocities, at the right temperature."""
from __future__ import annotations

import inspect
import logging
import math
import re
from fractions import Fraction

import numpy as np

import infretis.classes.engines.cp2k as icp2k
import infretis.classes.engines.gromacs as igmx
import infretis.classes.engines.lammps as ilmp
import infretis.classes.engines.turtlemdengine as itmd
import infretis.classes.engines.enginebase as ibase
import infretis.core.tis as tis
from infretis.classes.system import System
from symx import core, npfacade
from symx.core import Q, qconst
from symx.stubs import SymRng, mk_path

logging.disable(logging.CRITICAL)

PROPERTIES = ["C16"]
EXPLANATION = ("H16: EngineBase.draw_maxwellian_velocities, kinetic_energy, reset_momentum and modify_velocities of CP2KEngine, "
               "LAMMPSEngine, TurtleMDEngine and GromacsEngine (infretis_genvel branch) run on bare engine instances whose kb/_beta "
               "are produced by executing the constructor's own source lines; temperature, masses, old velocities, positions, box "
               "and the standard-normal draws are symbolic, the file readers/writers are pass-through fakes. sqrt(kT/m) is a fresh "
               "variable with rule y^2 -> kT/m, so 'variance parameter == k_B T / m' is a polynomial identity; unit constants are "
               "compared with an independent CODATA table (relative tolerance 1e-5: older CODATA releases differ at 1e-6).")
ASSUMPTIONS = [
    "numpy's Generator.normal(loc, scale, size) returns loc + scale * standard normals (its documented contract); that the "
    "standard normals are Gaussian is numpy's and outside",
    "file formats (readers/writers) are pass-through fakes keyed by what the real dump_frame/dump_config extracted into the file; "
    "C19 (codecs) is not applicable",
    "ASE (MaxwellBoltzmannDistribution, library code) and GROMACS' own gen_vel are outside",
    "exact real arithmetic for floats; standard-normal draws non-zero",
]

# independent constants (CODATA 2018)
KB_J = 1.380649e-23
NA = 6.02214076e23
HARTREE_J = 4.3597447222071e-18
ME_KG = 9.1093837015e-31
AMU_KG = 1.66053906660e-27
TABLE = {
    "cp2k": {"kb": KB_J / HARTREE_J, "unit": 1.0, "amu": AMU_KG / ME_KG},
    "lammps": {"kb": KB_J * NA / 4184.0, "unit": 1e5 / math.sqrt(4184.0 / 1e-3)},     # (kcal/g)^0.5 per (A/fs)
    "gromacs": {"kb": KB_J * NA / 1000.0, "unit": 1.0},
    "turtlemd": {"kb": None, "unit": 1.0},
}
OPTS = {"max_degree": 1}
DEFAULT_ZERO_MOMENTUM = {"cp2k": True, "lammps": False, "turtlemd": False, "gromacs": False}


def install():
    for m in (icp2k, ilmp, itmd, igmx, ibase):
        npfacade.install(m)
    npfacade.install(tis, int=npfacade.symint, max=npfacade.symmax, min=npfacade.symmin)


def functions():
    return [ibase.EngineBase.draw_maxwellian_velocities, icp2k.kinetic_energy, icp2k.reset_momentum,
            ibase.EngineBase.dump_frame, ibase.EngineBase.dump_config, icp2k.CP2KEngine.modify_velocities, ilmp.LAMMPSEngine.modify_velocities, itmd.TurtleMDEngine.modify_velocities,
            igmx.GromacsEngine.modify_velocities, tis.prepare_shooting_point, icp2k.guess_particle_mass]


def bounds(tier, prop):
    return {"atoms": "1..3", "dimensions": "3", "zero_momentum": "absent / true / false",
            "old kinetic energy": "zero or positive (symbolic)", "outside": "more atoms (per-atom algebra is uniform)"}


def instances(tier, prop):
    out = []
    for eng in ("cp2k", "lammps", "turtlemd", "gromacs"):
        for n in ((1, 2, 3) if tier == "thorough" else (1, 2)):
            for zm in ("absent", "true", "false"):
                out.append({"engine": eng, "n": n, "zm": zm, "_cost": n * 10})
        out.append({"engine": eng, "n": 2, "zm": "absent", "prepare": True, "_cost": 30})
    out.append({"engine": "cp2k", "kind": "mass", "_cost": 1})
    return out


EXPECT = ["engine:cp2k", "engine:lammps", "engine:turtlemd", "engine:gromacs", "zero-momentum:applied",
          "zero-momentum:not-applied", "dek:inf", "dek:finite", "prepare:checked", "constants:checked"]


def _ctor_lines(cls, names):
    """the constructor's own source lines that set the given attributes (executed, not re-typed)."""
    src = inspect.getsource(cls.__init__)
    out = []
    for ln in src.split("\n"):
        s = ln.strip()
        if any(s.startswith(f"self.{n} =") for n in names):
            out.append(s.split("#")[0].strip())
    return out


def _bare(eng, ctx, n, T, masses):
    cls = {"cp2k": icp2k.CP2KEngine, "lammps": ilmp.LAMMPSEngine, "turtlemd": itmd.TurtleMDEngine,
           "gromacs": igmx.GromacsEngine}[eng]
    e = cls.__new__(cls)
    ibase.EngineBase.__init__(e, f"bare-{eng}", 1.0, 1)     # attributes the common base class sets up
    e._exe_dir = "/exe"
    e.ext = {"cp2k": "xyz", "lammps": "lammpstrj", "turtlemd": "xyz", "gromacs": "g96"}[eng]
    e.temperature = T
    ns = {"self": e}
    kb_sym = None
    if eng == "turtlemd":
        kb_sym = ctx.real("boltzmann", positive=True)
        ns["boltzmann"] = kb_sym
        ns["temperature"] = T
        lines = _ctor_lines(cls, ["boltzmann", "_beta"])
    else:
        lines = _ctor_lines(cls, ["kb", "_beta"])
    for ln in lines:
        exec(ln, {"np": np}, ns)
    m = np.empty((n, 1), dtype=object)
    for i in range(n):
        m[i, 0] = masses[i]
    if eng == "gromacs":
        e.masses = m
        e.infretis_genvel = True
    else:
        e.mass = m
    if eng == "lammps":
        e.n_atoms = n
    e.input_files = {}
    return e, kb_sym, lines


class _IO:
    """pass-through file layer: what modify_velocities reads, and what it writes."""

    def __init__(self):
        self.written = None


def run_instance(ctx, sh):
    if sh.get("kind") == "mass":
        return _mass(ctx)
    eng, n = sh["engine"], sh["n"]
    T = ctx.real("T", positive=True)
    masses = [ctx.real(f"m{i}", positive=True) for i in range(n)]
    e, kb_sym, lines = _bare(eng, ctx, n, T, masses)
    ctx.cover(f"engine:{eng}")
    # constants: kb and unit factors against the independent table
    tab = TABLE[eng]
    if tab["kb"] is not None:
        kb_code = float(e.kb)
        ctx.check(abs(kb_code - tab["kb"]) <= 1e-5 * tab["kb"], "C16:boltzmann-constant-in-engine-units",
                  f"{eng}: code {kb_code} table {tab['kb']}")
        ctx.check(e._beta * (e.kb * T) == 1, "C16:beta==1/(kB*T)", " ".join(lines))
        kb_val = core._num(e.kb)
    else:
        ctx.check(e._beta * (kb_sym * T) == 1, "C16:beta==1/(kB*T)", " ".join(lines))
        kb_val = kb_sym
    ctx.cover("constants:checked")
    # symbolic configuration
    pos = np.empty((n, 3), dtype=object)
    vel = np.empty((n, 3), dtype=object)
    for i in range(n):
        for d in range(3):
            pos[i, d] = ctx.real(f"x{i}{d}")
            vel[i, d] = ctx.real(f"v{i}{d}")
    old_zero = bool(ctx.choice(2, "old-velocities-zero"))
    if old_zero:
        for i in range(n):
            for d in range(3):
                vel[i, d] = qconst(0)
    box = np.empty(3, dtype=object)
    for d in range(3):
        box[d] = ctx.real(f"L{d}", positive=True)
    atoms = [f"A{i}" for i in range(n)]
    id_type = np.array([[i + 1, 1] for i in range(n)])
    io = _IO()
    pos_in, vel_in, box_in = pos.copy(), vel.copy(), box.copy()
    rng = SymRng(ctx, "eng")
    real_normal = rng.normal

    def normal(loc=0.0, scale=1.0, size=None):
        z = real_normal(loc, scale, size)
        out = np.empty(z.shape, dtype=object)
        sc = np.broadcast_to(npfacade._obj(scale), z.shape)
        for idx in np.ndindex(z.shape):
            out[idx] = loc + sc[idx] * z[idx]
        rng.normal_calls[-1]["z"] = z
        for idx in np.ndindex(z.shape):
            ctx.assume(ctx.rel(z[idx], "!=", 0))     # a draw of exactly 0 carries no information about the unit factor
        return out
    rng.normal = normal
    e.rgen = rng
    # the REAL dump_frame/dump_config run; only _extract_frame is a fake that remembers which (trajectory, index) was put into
    # which file, and the readers hand back the arrays of exactly that source
    fs = {}
    sources = {("/load/7/accepted/traj.xyz", 3): (pos_in, vel_in, box_in)}
    e._extract_frame = lambda traj, idx, out: fs.__setitem__(out, (traj, idx))
    e._copyfile = lambda src, dst: fs.__setitem__(dst, (src, None))

    def content(conf):
        return sources[fs[conf]]

    import os as _os

    class _P:
        def __getattr__(self, k):
            return getattr(_os.path, k)

        def isfile(self, p):
            return p in fs

        exists = isfile

        def isdir(self, p):
            return True

    class _OS:
        path = _P()

        def __getattr__(self, k):
            return getattr(_os, k)
    patched = []

    def patch(mod, name, fn):
        patched.append((mod, name, getattr(mod, name)))
        setattr(mod, name, fn)

    def wr_xyz(fname, p, v, names, b, step=None, append=True):
        io.written = {"file": fname, "pos": p, "vel": v, "names": names, "box": b}

    patch(ibase, "os", _OS())      # files written by the fake _extract_frame exist for the code under test
    if eng in ("cp2k", "turtlemd"):
        e._read_configuration = lambda f: (content(f)[0], content(f)[1], content(f)[2], atoms)
        patch(icp2k if eng == "cp2k" else itmd, "write_xyz_trajectory", wr_xyz)
    elif eng == "lammps":
        patch(ilmp, "read_lammpstrj", lambda f, fr, na: (id_type, content(f)[0], content(f)[1], content(f)[2]))
        patch(ilmp, "write_lammpstrj", lambda f, idt, p, v, b, append=False: io.__setattr__(
            "written", {"file": f, "pos": p, "vel": v, "names": idt, "box": b}))
    else:
        txt = {"VELOCITY": "v", "POSITION": "p", "BOX": box_in}
        patch(igmx, "read_gromos96_file", lambda f: (txt, content(f)[0], content(f)[1], content(f)[2]))
        patch(igmx, "write_gromos96_file", lambda f, t, p, v: io.__setattr__(
            "written", {"file": f, "pos": p, "vel": v, "names": t, "box": t["BOX"]}))
    system = System()
    system.config = ("/load/7/accepted/traj.xyz", 3)
    system.order = [ctx.real("order")]
    # the phase point may carry a stored kinetic energy (from the energy file of the run that produced it, in that file's
    # units): GROMACS (genvel) is documented to use it as the old kinetic energy; the other engines compute it from the
    # velocities they read, so the stored value -- arbitrary here -- must not enter dek
    if eng == "gromacs":
        system.ekin = None if old_zero else ctx.real("ekin_old", positive=True)
    else:
        system.ekin = ctx.real("ekin_stored", positive=True) if ctx.choice(2, "stored-ekin") else None
    settings = {}
    if sh["zm"] != "absent":
        settings["zero_momentum"] = sh["zm"] == "true"
    try:
        if sh.get("prepare"):
            # through prepare_shooting_point: the frame it was taken from must not change
            # an earlier regeneration by the same engine object, same frame index, different trajectory file
            other = mk_path([ctx.real("p0"), ctx.real("p1"), ctx.real("p2")])
            other.phasepoints[1].config = ("/load/5/accepted/other.xyz", 3)
            opos, ovel = pos.copy(), vel.copy()
            for i in range(n):
                for d in range(3):
                    opos[i, d] = ctx.real(f"ox{i}{d}")
                    ovel[i, d] = ctx.real(f"ov{i}{d}")
            sources[("/load/5/accepted/other.xyz", 3)] = (opos, ovel, box_in)
            e.calculate_order = lambda s, **k: [ctx.real("order_after_kick")]
            r0 = SymRng(ctx, "move0")
            r0.integers = lambda a, b=None: 1
            tis.prepare_shooting_point(other, r0, e, {"tis_set": settings, "rgen": r0})
            rng.normal_calls.clear()
            rng.draws.clear()
            io.written = None
            path = mk_path([ctx.real("o0"), ctx.real("o1"), ctx.real("o2")])
            src = path.phasepoints[1]
            src.config = ("/load/7/accepted/traj.xyz", 3)
            snap = (src.config, src.order, src.order[0], src.vel_rev, src.ekin, src.vpot)
            e.calculate_order = lambda s, **k: [ctx.real("order_after_kick")]
            ens_set = {"tis_set": settings, "rgen": SymRng(ctx, "move")}
            ens_set["rgen"].integers = lambda a, b=None: 1
            shpt, idx, dek = tis.prepare_shooting_point(path, ens_set["rgen"], e, ens_set)
            ctx.check((src.config, src.order, src.order[0], src.vel_rev, src.ekin, src.vpot) == snap and shpt is not src
                      and path.phasepoints[1] is src,
                      "C16:regeneration-never-alters-the-frame-it-was-taken-from", f"{src.config} {src.ekin}")
            ctx.check(shpt.config == ("/exe/genvel." + e.ext, 0), "C16:shooting-point-references-the-regenerated-file", f"{shpt.config}")
            ctx.cover("prepare:checked")
            kin_new = shpt.ekin
        else:
            dek, kin_new = e.modify_velocities(system, settings)
    except core.Inconclusive:
        raise
    except (core._Abort, core._Stop, core._Skip):
        raise
    except Exception as ex:
        core.reraise_if_proxy_limitation(ex)
        for mod, name, fn in patched:
            setattr(mod, name, fn)
        ctx.fail("C16:no-exception", repr(ex))
    finally:
        for mod, name, fn in patched:
            setattr(mod, name, fn)
    w = io.written
    ctx.check(w is not None and w["file"] == "/exe/genvel." + e.ext, "C16:writes-genvel-file", f"{w and w['file']}")
    # only velocities change
    same_pos = w["pos"] is pos_in or all(a is b for a, b in zip(w["pos"].flat, pos.flat))
    ctx.check(same_pos and all(a is b for a, b in zip(pos_in.flat, pos.flat)), "C16:positions-preserved")
    wb = w["box"]
    ctx.check(wb is box_in or all(a is b for a, b in zip(np.asarray(wb, dtype=object).flat, box.flat)), "C16:box-preserved")
    ctx.check(w["names"] is (atoms if eng in ("cp2k", "turtlemd") else (id_type if eng == "lammps" else w["names"])),
              "C16:atom-identities-preserved")
    ctx.check(all(a is b for a, b in zip(vel_in.flat, vel.flat)), "C16:input-velocity-array-not-modified-in-place")
    # the draw: one call, loc 0, scale^2 * m == 1/beta
    calls = rng.normal_calls
    ctx.check(len(calls) == 1 and len(rng.draws) == 1, "C16:exactly-one-normal-draw-from-the-engine-stream", f"{len(calls)}")
    c = calls[0]
    ctx.check(c["loc"] == 0.0 and tuple(c["size"]) == (n, 3), "C16:zero-mean-one-draw-per-component", f"{c['loc']} {c['size']}")
    sc = npfacade._obj(c["scale"])
    ctx.check(sc.shape == (n, 1), "C16:one-standard-deviation-per-atom", f"{sc.shape}")
    beta = e._beta
    for i in range(n):
        ctx.check(sc[i, 0] * sc[i, 0] * masses[i] * beta == 1, "C16:sigma^2*m==kB*T", f"atom {i}")
        ctx.check(sc[i, 0] >= 0, "C16:sigma-nonnegative")
    # written velocities = unit-converted draws (+ momentum reset)
    z = c["z"]
    unit = Fraction(tab["unit"])
    zm = settings.get("zero_momentum", DEFAULT_ZERO_MOMENTUM[eng])
    expect = np.empty((n, 3), dtype=object)
    for i in range(n):
        for d in range(3):
            expect[i, d] = sc[i, 0] * z[i, d]
    # engine unit factor, from the written values themselves: written = draw / f  with f == table unit (1e-6)
    wv = w["vel"]
    if not zm:
        ctx.cover("zero-momentum:not-applied")
        ratio = _const_ratio(core._num(expect[0, 0]), core._num(wv[0, 0]))
        ctx.check(ratio is not None, "C16:written-velocity-is-the-draw-times-a-unit-constant", f"{wv[0, 0]}")
        f_code = float(ratio)
        ctx.check(abs(f_code - tab["unit"]) <= 1e-5 * tab["unit"], "C16:velocity-unit-factor", f"{eng}: code {f_code} table {tab['unit']}")
        ok = all(bool(wv[i, d] * ratio == expect[i, d]) for i in range(n) for d in range(3))
        ctx.check(ok, "C16:velocities-untouched-without-zero-momentum")
    else:
        ctx.cover("zero-momentum:applied")
        for d in range(3):
            tot = qconst(0)
            for i in range(n):
                tot = tot + masses[i] * wv[i, d]
            ctx.check(tot == 0, "C16:zero-total-momentum-when-requested", f"dim {d}")
        # and it is the draw minus the centre-of-mass velocity (nothing else changed)
        f = core._num(float(tab["unit"])) if eng != "lammps" else None
    # kinetic energy bookkeeping
    kin = qconst(0)
    for i in range(n):
        for d in range(3):
            kin = kin + masses[i] * wv[i, d] * wv[i, d] / 2
    ctx.check(kin_new == kin, "C16:kin_new==sum(m*v^2)/2-of-the-written-velocities")
    if not sh.get("prepare"):
        ctx.check(system.config == ("/exe/genvel." + e.ext, 0) and bool(system.ekin == kin_new),
                  "C16:system-points-to-regenerated-configuration")
        if eng == "gromacs":
            kin_old = system_ekin_old = None
        kold = qconst(0)
        for i in range(n):
            for d in range(3):
                kold = kold + masses[i] * vel[i, d] * vel[i, d] / 2
        if eng == "gromacs":
            # GROMACS takes the old kinetic energy from the phase point
            if old_zero:
                ctx.check(dek == float("inf"), "C16:dek-inf-without-old-kinetic-energy", f"{dek}")
                ctx.cover("dek:inf")
            else:
                ctx.check(bool(dek == kin_new - ctx.real("ekin_old", positive=True)), "C16:dek==kin_new-kin_old")
                ctx.cover("dek:finite")
        else:
            if old_zero:
                ctx.check(dek == float("inf"), "C16:dek-inf-without-old-kinetic-energy", f"{dek}")
                ctx.cover("dek:inf")
            else:
                if bool(kold == 0):
                    ctx.check(dek == float("inf"), "C16:dek-inf-without-old-kinetic-energy", f"{dek}")
                else:
                    ctx.check(not isinstance(dek, float) and bool(dek == kin_new - kold), "C16:dek==kin_new-kin_old")
                    ctx.cover("dek:finite")
    ctx.check(DEFAULT_ZERO_MOMENTUM[eng] == (eng == "cp2k"), "C16:documented-default-for-zero_momentum")


def _const_ratio(a, b):
    """the constant k with a == k*b as exact rational expressions (None if there is none)."""
    p, q = a.n * b.d, b.n * a.d
    if not q.t or not p.t:
        return None
    m = next(iter(q.t))
    if m not in p.t:
        return None
    k = p.t[m] / q.t[m]
    if p.t != q.scale(k).t:
        return None
    return k


def _mass(ctx):
    """CP2K masses: g/mol -> electron masses with the CODATA factor."""
    m = icp2k.guess_particle_mass(0, "H")
    ref = icp2k.PERIODIC_TABLE["H"] * TABLE["cp2k"]["amu"]
    ctx.check(abs(m - ref) <= 1e-5 * ref, "C16:cp2k-mass-unit-factor", f"{m} vs {ref}")
    ctx.cover("constants:checked")
