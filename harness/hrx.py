"""HRX -- the scheduler state machine of REPEX_state (C03, C04, C05, restart leg of C06, deletion clause of C14).

Two modes over the same real methods and stubs:
  ind : inductive step.  An arbitrary pre-state satisfying invariant I (arrangement of live paths over the slots, set of
        in-flight jobs incl. zero swaps, symbolic accumulated fractions, delete queue) is built through the REAL
        initiation code with forced picks; then an arbitrary in-flight job finishes with an arbitrary outcome
        (treat_output) and a new job is drawn (prep_md_items -> pick) with nondeterministic random outcomes.
  bmc : the same from the real initial state for every event sequence up to depth D (base case + reachability).
"""
from __future__ import annotations

import copy
import itertools
import logging
import os
import tomllib

import numpy as np

import infretis.classes.path as ipath
import infretis.classes.repex as rx
import infretis.core.tis as tis
from infretis.classes.engines.factory import assign_engines
from infretis.classes.path import Path
from infretis.classes.system import System
from symx import core, npfacade, rngmodel
from symx.core import Q, qconst

logging.disable(logging.CRITICAL)

PROPERTIES = ["C03", "C04", "C05", "C06", "C14", "C02", "C11"]
EXPLANATION = ("HRX: REPEX_state.__init__/initiate_ensembles/load_paths/initiate/prep_md_items/pick_lock/pick/pick_traj_ens/"
               "lock/unlock/swap/add_traj/treat_output/sort_trajstate/prob->inf_retis/write_toml/write_to_pathens and "
               "assign_engines run for real; the random generator, file layer (open/os/make_dirs/PathStorage.output) are "
               "recording stubs; accumulated fractions and the zero-swap coin are symbolic reals, every random pick, the "
               "finishing job, the outcome and the reach of an accepted path are nondeterministic choices explored "
               "exhaustively. Mode ind = one inductive step from every invariant-satisfying pre-state; mode bmc = all event "
               "sequences from the real initial state up to a depth.")
ASSUMPTIONS = [
    "family: minus path in slot 0, plus paths are staircase rows with non-zero own entry (sh: 1/0 by crossing; wf: positive "
    "frame counts from the real calc_cv_vector on generated paths, no cap => no holes)",
    "pre-state invariant I1-I5 (DESIGN.md section 3 HRX); every pre-state is built by the real initiation code with forced "
    "picks, which can realise exactly the arrangements with non-zero own weight on busy slots and a perfect matching on "
    "the idle block",
    "rng: choice(n,p) returns any index with p>0; random() any value in (0,1)",
    "TOML library and str()/float() round trip of longdouble trusted (fractions travel as exact tokens)",
    "workers <= ensembles-1 (check_config)",
]


# --------------------------------------------------------------------------------------------------------- fakes
class World:
    def __init__(self):
        self.removed, self.rmdirs, self.mkdirs, self.queue_at_removal = [], [], [], []
        self.data_rows, self.tomls, self.stored = [], [], {}
        self.restart_raw = None


class _FakeFile:
    def __init__(self, world, name, mode):
        self.world, self.name, self.mode, self.buf = world, name, mode, []

    def write(self, s):
        self.buf.append(s)

    def __enter__(self):
        return self

    def __exit__(self, *a):
        data = (b"" if "b" in self.mode else "").join(self.buf)
        if self.name.endswith("restart.toml"):
            self.world.restart_raw = data
            self.world.tomls.append(tomllib.loads(data.decode()))
        else:
            self.world.data_rows.append((self.name, data))
        return False


class _FakePath:
    def __getattr__(self, k):
        return getattr(os.path, k)

    def isfile(self, p):
        return True


class _FakeOS:
    def __init__(self, world):
        self.world = world
        self.path = _FakePath()

    def getcwd(self):
        return "/sim"

    def remove(self, p):
        self.world.removed.append(p)
        st = getattr(self.world, "state", None)
        self.world.queue_at_removal.append(list(st.pn_olds.keys()) if st is not None else None)

    def rmdir(self, p):
        self.world.rmdirs.append(p)


class _FakePStore:
    keep_traj_fnames: list = []

    def __init__(self, world):
        self.world = world

    def output(self, step, data):
        path = data["path"]
        new = path.copy()
        tgt = os.path.join(data["dir"], str(path.path_number), "accepted")
        for pp in new.phasepoints:
            pp.config = (os.path.join(tgt, os.path.basename(pp.config[0])), pp.config[1])
        self.world.stored[path.path_number] = new
        return new


class _TomlShim:
    """tomli_w for repex.py: symbolic numbers are written as their exact tokens, everything else by the real library."""

    @staticmethod
    def dump(config, f):
        import tomli_w

        def conv(x):
            if isinstance(x, Q):
                return str(x)
            if isinstance(x, dict):
                return {k: conv(v) for k, v in x.items()}
            if isinstance(x, (list, tuple)):
                return [conv(v) for v in x]
            return x
        tomli_w.dump(conv(config), f)


WORLD = None


def _install_world(world):
    global WORLD
    WORLD = world
    rx.open = lambda name, mode="r", **kw: _FakeFile(world, name, mode)
    rx.os = _FakeOS(world)
    rx.make_dirs = lambda d: world.mkdirs.append(d)
    rx.tomli_w = _TomlShim


def install():
    npfacade.install(rx, max=npfacade.symmax, min=npfacade.symmin)
    rx.np._random_ns = rngmodel.NpRandomNS
    rx.default_rng = rngmodel.default_rng_model
    npfacade.install(ipath)
    npfacade.install(tis, max=npfacade.symmax, min=npfacade.symmin)
    rx.abs = _qabs


def _qabs(a):
    """abs() for repex.py: exact -- machine floats entering the weight matrix become exact rationals."""
    if isinstance(a, np.ndarray):
        out = np.empty(a.shape, dtype=object)
        for idx in np.ndindex(a.shape):
            x = a[idx]
            x = core._num(x) if not isinstance(x, Q) else x
            out[idx] = abs(x)
        return out
    return abs(a)


def functions():
    R = rx.REPEX_state
    return [R.__init__, R.initiate_ensembles, R.load_paths, R.initiate, R.prep_md_items, R.pick_lock, R.pick,
            R.pick_traj_ens, R.lock, R.unlock, R.swap, R.add_traj, R.treat_output, R.sort_trajstate, R.inf_retis,
            R.quick_prob, R.permanent_prob, R.find_blocks, R.live_paths, R.locked_paths, R.write_toml, R.set_rgen, R.loop,
            rx.write_to_pathens, rx.spawn_rng, assign_engines, tis.calc_cv_vector]


# --------------------------------------------------------------------------------------------------------- building blocks
def intfs_for(k):
    return [float(i) for i in range(k)]


CLIMB = False     # per instance: paths climb through every lower region (needed when an interface cap is set: no holes)


def cap_for(k):
    return (k - 1) - 0.25


def mk_plus_path(k, reach, m=1, pn=None, files=None):
    """a plus path that starts left of lambda_0, has m frames between lambda_{reach-1} and lambda_reach, ends left.
    With CLIMB it visits every lower region on the way up and, at full reach, also has a frame between the cap and the last
    interface (so that weights computed with and without the cap differ)."""
    lam = intfs_for(k)
    top = lam[reach - 1] + 0.5
    if CLIMB:
        orders = [lam[0] - 1.0] + [lam[j] + 0.5 for j in range(reach - 1)] + [top] * m
        if reach == k - 1:
            orders.append(lam[-1] - 0.1)
        orders.append(lam[0] - 1.0)
        return _mk_path(orders, pn, files)
    orders = [lam[0] - 1.0] + [top] * m + [lam[0] - 1.0]
    return _mk_path(orders, pn, files)


def mk_minus_path(k, pn=None, files=None):
    lam = intfs_for(k)
    return _mk_path([lam[0] + 1.0, lam[0] - 0.5, lam[0] + 1.0], pn, files)


def _mk_path(orders, pn, files):
    p = Path()
    for i, o in enumerate(orders):
        s = System()
        s.order = [o]
        s.config = ((files or f"/sim/load/{pn}/accepted/traj.xyz"), i)
        p.phasepoints.append(s)
    p.path_number = pn
    p.generated = ("sh", 0.0, 0, 0)
    p.status = "ACC"
    return p


def base_config(k, workers, moves, steps, delete_old, delete_all=False, engines=None, cap=None):
    cfg = _base_config(k, workers, moves, steps, delete_old, delete_all, engines)
    if cap is not None:
        cfg["simulation"]["tis_set"]["interface_cap"] = cap
    return cfg


def _base_config(k, workers, moves, steps, delete_old, delete_all=False, engines=None):
    return {
        "current": {"traj_num": k, "cstep": 0, "active": list(range(k)), "locked": [], "size": k, "frac": {}},
        "runner": {"workers": workers},
        "simulation": {"interfaces": intfs_for(k), "shooting_moves": list(moves), "seed": 0, "steps": steps,
                       "load_dir": "load", "tis_set": {"maxlength": 100, "lambda_minus_one": False, "quantis": False,
                                                       "accept_all": False},
                       "ensemble_engines": engines or [["engine"]] * k},
        "output": {"screen": 0, "data_dir": "./", "data_file": "./infretis_data.txt", "delete_old": delete_old,
                   "delete_old_all": delete_all, "pattern": False},
        "engine": {"class": "stub"}, "engine0": {"class": "stub"}, "engA": {"class": "stub"}, "engB": {"class": "stub"},
    }


def new_state(config, world):
    _install_world(world)
    st = rx.REPEX_state(config, minus=True)
    st.traj_data = {}          # class-level dict in the repo: every instance needs its own
    st.pstore = _FakePStore(world)
    world.state = st
    st.initiate_ensembles()
    cnt = {}
    for lst in config["simulation"]["ensemble_engines"]:
        for e in lst:
            cnt[e] = cnt.get(e, 0) + 1
    st.engine_occ = {e: [-1] * min(n, config["runner"]["workers"]) for e, n in cnt.items()}
    return st


def _engine_layout(k, kind):
    """which engine types the ensembles use: one type for all; the quantis-like layout ([0-] on its own type); or two types
    interleaved so that [0-] and [0+] differ and both types are shared with other ensembles."""
    if kind == "single":
        return None
    if kind == "quantis":
        return [["engine0"]] + [["engine"]] * (k - 1)
    names = ["engA", "engB"]
    lay = [[names[0]], [names[1]]] + [[names[(i + 1) % 2]] for i in range(2, k)]
    lay[-1] = [names[0]]
    return lay


def md0_of(st):
    return {"mc_moves": st.mc_moves, "interfaces": st.interfaces, "cap": st.cap}


class Forced:
    """scripted outcomes for the generator model while a pre-state is being built."""

    def __init__(self, script):
        self.script = list(script)


def _weights(st, path, ens_num):
    return tis.calc_cv_vector(path, st.interfaces, st.mc_moves,
                              st.config["simulation"]["tis_set"]["lambda_minus_one"], cap=st.cap, minus=ens_num < 0)


# --------------------------------------------------------------------------------------------------------- invariants
def nz(x):
    return (x != 0)


def pattern(st):
    n = st.n
    return [[bool(nz(st.state[i, j])) for j in range(n)] for i in range(n)]


def has_matching(pat, idx):
    m = len(idx)
    if m == 0:
        return True
    return any(all(pat[idx[i]][idx[p[i]]] for i in range(m)) for p in itertools.permutations(range(m)))


def check_invariants(ctx, st, inflight, where, after_treat=False):
    n = st.n
    P = "C03"
    busy = set()
    paths_held = []
    for m in inflight:
        for e in m["ens_nums"]:
            slot = e + st._offset
            ctx.check(slot not in busy, f"{P}:in-flight-ensembles-disjoint", f"{where} slot {slot}")
            busy.add(slot)
            tr = m["picked"][e]["traj"]
            paths_held.append(tr.path_number)
            ctx.check(st._trajs[slot] is tr or st._trajs[slot].path_number == tr.path_number,
                      f"{P}:busy-slot-holds-the-job's-path", f"{where} slot {slot}")
            ctx.check(bool(nz(st.state[slot, slot])), f"{P}:job-path-has-nonzero-weight-in-its-ensemble", f"{where} slot {slot}")
    ctx.check(len(set(paths_held)) == len(paths_held), f"{P}:in-flight-paths-disjoint", where)
    marked = {i for i in range(n - 1) if st._locks[i] == 1}
    ctx.check(marked == busy and st._locks[n - 1] == 1, f"{P}:exactly-in-flight-ensembles-marked-busy",
              f"{where} marked {sorted(marked)} busy {sorted(busy)}")
    # zero swaps hold both
    for m in inflight:
        if len(m["ens_nums"]) == 2:
            ctx.check(sorted(m["ens_nums"]) == [-1, 0], f"{P}:zero-swap-pairs-[0-]-and-[0+]", where)
    # engines and directories
    pins = [m["pin"] for m in inflight]
    ctx.check(len(set(pins)) == len(pins), f"{P}:worker-pins-distinct", f"{where} {pins}")
    used = []
    ens_engs = st.config["simulation"]["ensemble_engines"]
    for m in inflight:
        ctx.check(m["w_folder"] == os.path.join("/sim", f"worker{m['pin']}"), f"{P}:worker-directory", where)
        mine = set()
        for e in m["ens_nums"]:
            pk = m["picked"][e]
            ctx.check(pk["exe_dir"] == m["w_folder"] and pk["pin"] == m["pin"], f"{P}:job-runs-in-its-worker-directory", where)
            ctx.check(sorted(pk["eng_idx"]) == sorted(ens_engs[e + 1]), f"{P}:job-got-the-engine-types-of-its-ensemble", where)
            for eng, idx in pk["eng_idx"].items():
                ctx.check(st.engine_occ[eng][idx] == m["pin"], f"{P}:engine-instance-claimed-by-its-worker",
                          f"{where} {eng}[{idx}] occ {st.engine_occ[eng]} pin {m['pin']}")
                mine.add((eng, idx))
        used.append(mine)
    for a in range(len(used)):
        for b in range(a + 1, len(used)):
            ctx.check(not (used[a] & used[b]), f"{P}:no-shared-engine-instance", f"{where} {used}")
    # C05 part
    pat = pattern(st)
    idle = [i for i in range(n - 1) if st._locks[i] == 0]
    if idle:
        ctx.check(has_matching(pat, idle), "C05:idle-block-has-perfect-matching", f"{where} idle {idle}")
    live = st.live_paths()
    ctx.check(len(set(live)) == len(live), "C05:live-paths-distinct", f"{where} {live}")
    ctx.check(all(p < st.config["current"]["traj_num"] for p in live) or where.startswith("pre"),
              "C05:path-numbers-below-counter", f"{where} {live} traj_num {st.config['current']['traj_num']}")
    ctx.check(sorted(st.traj_data.keys()) == sorted(live), "C04:traj_data-holds-exactly-the-live-paths",
              f"{where} {sorted(st.traj_data.keys())} vs {sorted(live)}")
    ctx.check(pat[0][0] and not any(pat[0][1:]) and not any(pat[i][0] for i in range(1, n)), "C05:minus-path-in-slot-0", where)
    if after_treat:
        for i in idle:
            ctx.check(pat[i][i], "C05:idle-path-sits-where-its-weight-is-nonzero", f"{where} slot {i}")
    # the cached probability matrix is the one of the current state (C02: what pick() draws from)
    if PROP in ("C02", "C03", "C05") and idle:
        try:
            fresh = st.inf_retis(_qabs(st.state), st._locks)
            cur = st.prob
            same = all(bool(fresh[i, j] == cur[i, j]) for i in range(n) for j in range(n))
        except core.Inconclusive:
            raise
        except Exception as e:
            core.reraise_if_proxy_limitation(e)
            same = False
        ctx.check(same, "C02:cached-probability-matrix-belongs-to-the-current-state", where)
    # locked bookkeeping mirrors in-flight jobs
    rec = sorted((sorted(e + st._offset for e in m["ens_nums"]), sorted(str(m["picked"][e]["traj"].path_number)
                                                                         for e in m["ens_nums"])) for m in inflight)
    got = sorted((sorted(int(x) + st._offset for x in l[0]), sorted(l[1])) for l in st.locked)
    ctx.check(rec == got, "C06:locked-list-mirrors-in-flight-jobs", f"{where} {got} vs {rec}")


# --------------------------------------------------------------------------------------------------------- the step
class ChoiceGuard:
    """checks the probability vector handed to rgen.choice (C05) -- installed as GenModel.choice_hook."""

    def __init__(self, ctx):
        self.ctx = ctx
        self.calls = 0

    def __call__(self, n, p):
        self.calls += 1
        ctx = self.ctx
        if p is None:
            return
        arr = np.asarray(p, dtype=float)
        ok = bool(np.all(np.isfinite(arr))) and bool(np.all(arr >= 0)) and abs(float(arr.sum()) - 1.0) < 1e-9
        lab = {"C03": "C03:pick-draws-from-a-valid-distribution",
               "C18": "C18:first-picks-draw-from-a-valid-distribution"}.get(PROP, "C05:pick-gets-a-probability-vector")
        ctx.check(ok, lab, f"{arr}")


def finish_job(ctx, st, world, inflight, k, wf_m=(1,)):
    """an arbitrary in-flight job finishes with an arbitrary outcome; runs treat_output and checks C03/C04/C05/C14."""
    j = ctx.choice(len(inflight), "finishing-job")
    m = inflight.pop(j)
    outcome = ctx.choice(2, "outcome")  # 0 = rejected, 1 = accepted
    m["status"] = "ACC" if outcome else "REJ"
    replaced = []
    if outcome:
        for e in m["ens_nums"]:
            if e < 0:
                newp = mk_minus_path(k, None, files=f"{m['w_folder']}/new{e}.xyz")
            else:
                reach = e + 1 + ctx.choice(k - 1 - e, f"reach[{e}]")
                mm = wf_m[ctx.choice(len(wf_m), "wf-frames")] if "wf" in st.mc_moves[1:] else 1
                newp = mk_plus_path(k, reach, mm, None, files=f"{m['w_folder']}/new{e}.xyz")
            newp.weights = _weights(st, newp, e)
            replaced.append(m["picked"][e]["traj"].path_number)
            m["picked"][e]["traj"] = newp
    m["moves"], m["trial_len"], m["trial_op"], m["generated"] = ["sh"], [3], [(0.0, 1.0)], [("sh", 0, 0, 0)]
    # ---- snapshot
    n = st.n
    pre_frac = {pn: [x for x in v["frac"]] for pn, v in st.traj_data.items()}
    pre_live = st.live_paths()
    pre_traj_num = st.config["current"]["traj_num"]
    pre_rows, pre_removed, pre_rmdirs = len(world.data_rows), len(world.removed), len(world.rmdirs)
    pre_olds = list(st.pn_olds.keys())
    pre_busy_rows = {i: (st._trajs[i], [x for x in st.state[i]]) for i in range(n - 1)
                     if st._locks[i] == 1 and (i - st._offset) not in m["ens_nums"]}
    swaps = {"n": 0, "seen": set()}
    real_swap = st.swap

    def counted_swap(a, b):
        swaps["n"] += 1
        key = (tuple(t.path_number for t in st._trajs[:-1]), a, b)
        if key in swaps["seen"] or swaps["n"] > n * n + 2:
            ctx.fail("C05:sorting-terminates", f"cycle/too many swaps: {swaps['n']}")
        swaps["seen"].add(key)
        return real_swap(a, b)
    st.swap = counted_swap
    try:
        st.treat_output(m)
    except AssertionError as e:
        ctx.fail(_assert_label(e, "treat_output"), _tb(e))
    except core.Inconclusive:
        raise
    except Exception as e:
        core.reraise_if_proxy_limitation(e)
        ctx.fail(_assert_label(e, "treat_output"), _tb(e))
    finally:
        del st.swap
    # ---- C05
    tn = st.config["current"]["traj_num"]
    ctx.check(tn == pre_traj_num + (len(m["ens_nums"]) if outcome else 0), "C05:path-numbers-never-reused",
              f"{pre_traj_num}->{tn}")
    for i, (tr, row) in pre_busy_rows.items():
        ctx.check(st._trajs[i] is tr and all(bool(a == b) for a, b in zip(row, st.state[i])),
                  "C03:busy-rows-untouched-by-treat_output", f"slot {i}")
    # ---- C04: exactly one unit per idle column, nothing on busy ones / busy paths
    live = st.live_paths()
    idle_cols = [c for c in range(n - 1) if st._locks[c] == 0]
    busy_paths = set(st.locked_paths())
    inc = {}
    for pn in live:
        before = pre_frac.get(pn, [qconst(0)] * n)
        after = st.traj_data[pn]["frac"]
        inc[pn] = [after[c] - before[c] for c in range(n)]
    for c in range(n):
        tot = qconst(0)
        for pn in live:
            tot = tot + inc[pn][c]
        want = 1 if c in idle_cols else 0
        ctx.check(tot == want, "C04:one-unit-of-weight-per-idle-column", f"column {c} got {tot} want {want}")
    for slot, pn in enumerate(live):
        for c in range(n):
            # slot may have changed by sorting: find the row of this path now
            pass
    rowof = {t.path_number: i for i, t in enumerate(st._trajs[:-1])}
    for pn in live:
        i = rowof[pn]
        for c in range(n):
            if not bool(nz(st.state[i, c])):
                ctx.check(inc[pn][c] == 0, "C04:weight-only-where-path-weight-nonzero", f"path {pn} col {c}")
            ctx.check(inc[pn][c] >= 0, "C04:increments-nonnegative", f"path {pn} col {c}")
        if pn in busy_paths:
            ctx.check(all(bool(x == 0) for x in inc[pn]), "C04:busy-paths-get-nothing", f"path {pn}")
    # data file rows: exactly the replaced paths, once, with their pre-step fractions
    rows = world.data_rows[pre_rows:]
    text = "".join(r[1] for r in rows)
    lines = [ln for ln in text.split("\n") if ln.strip()]
    got_pns = []
    for ln in lines:
        f = ln.split("\t")
        # layout: '', pn, length, max_op, frac*(n-1), weight*(n-1), ''
        pn = int(float(f[1]))
        got_pns.append(pn)
        fr = f[4:4 + (n - 1)]
        exp = pre_frac.get(pn)
        ok = exp is not None
        if ok:
            for c, tok in enumerate(fr):
                val = qconst(0) if tok.strip() == "----" else core.parse_number(tok)
                # the minus path reports column 0 only; plus paths columns 1..n-2
                if c < len(exp) - 1:
                    if not bool(val == exp[c]):
                        ok = False
        ctx.check(ok, "C04:data-row-carries-the-pre-step-fractions", ln)
    ctx.check(sorted(got_pns) == sorted(replaced), "C04:data-file-gets-exactly-the-replaced-paths-once",
              f"rows {got_pns} replaced {replaced}")
    ctx.check(not (set(got_pns) & set(live)), "C04:no-row-for-a-live-path")
    # ---- C14 deletion clause
    removed = world.removed[pre_removed:]
    live_addr = set()
    for pn in live:
        live_addr |= set(st.traj_data[pn]["adress"])
    cfg_active = world.tomls[-1]["current"]["active"] if world.tomls else live
    if not st.config["output"].get("delete_old", False):
        ctx.check(not removed and len(world.rmdirs) == pre_rmdirs, "C14:nothing-removed-without-delete_old", f"{removed}")
    queues = world.queue_at_removal[pre_removed:]
    for a, queue in zip(removed, queues):
        ctx.check(a not in live_addr, "C14:never-removes-a-file-of-a-live-path", a)
        owner = _owner(a)
        ctx.check(owner is not None and owner not in live and owner not in cfg_active,
                  "C14:removed-file-belongs-to-a-dead-path-not-in-restart-file", f"{a} owner {owner}")
        ctx.check(owner is not None and owner > n - 2, "C14:never-touches-initial-paths", f"{a} owner {owner}")
        # at the moment of removal the owner heads a queue of >= n-1 replaced paths (the configured lag)
        ctx.check(queue is not None and str(owner) in queue and queue.index(str(owner)) == 0 and len(queue) >= n - 1,
                  "C14:removal-only-after-the-configured-lag", f"{a} queue-at-removal {queue} queue-before-step {pre_olds}")
    for d in world.rmdirs[pre_rmdirs:]:
        ctx.check(st.config["output"].get("delete_old_all", False), "C14:directories-only-with-delete_old_all", d)
        owner = _owner(d + "/")
        ctx.check(owner is not None and owner not in live and owner > n - 2, "C14:rmdir-only-for-dead-later-paths", d)
    if removed:
        ctx.cover("delete:removed")
    return m, outcome


def _tb(e):
    import traceback
    fr = traceback.extract_tb(e.__traceback__)
    return repr(e) + " @ " + " <- ".join(f"{f.name}:{f.lineno}" for f in reversed(fr[-4:]))


PROP = "C05"


def _assert_label(e, where):
    """which clause an escaping exception violates: by the function that raised it."""
    import traceback
    names = [f.name for f in traceback.extract_tb(e.__traceback__)]
    kind = type(e).__name__
    if "lock" in names or "unlock" in names:
        return f"C03:lock/unlock-assertion-in-{where}"
    if "assign_engines" in names:
        return f"C03:engine-assignment-failed-in-{where}"
    if "inf_retis" in names:
        return f"C05:probability-matrix-{kind}-in-{where}"
    # any other exception escaping the real scheduler step: the step did not complete, which every HRX property presupposes
    fallback = PROP if PROP in ("C03", "C04", "C05", "C06", "C14") else "C05"
    return f"{fallback}:{kind}-escaped-{where}"


def _owner(addr):
    parts = addr.replace("\\", "/").split("/")
    for i, p in enumerate(parts):
        if p == "load" and i + 1 < len(parts):
            try:
                return int(parts[i + 1])
            except ValueError:
                return None
    return None


class _EndPath(BaseException):
    """the path ends here (a side computation took a branch other than its first; what follows does not depend on it)."""


def restart_roundtrip(ctx, st, world, inflight, k):
    """the restart is simulated on copies (st2, st3) and does not influence the history that follows: the continuation is
    explored behind the first branch of every fork made inside, the other branches end after the restart leg."""
    start = getattr(ctx, "pos", 0)
    _restart_roundtrip(ctx, st, world, inflight, k)
    if ctx.side_end(start):
        raise _EndPath()


def _restart_roundtrip(ctx, st, world, inflight, k):
    """C05/C06: the restart file written at this moment loads and reproduces the scheduler state; the in-flight jobs
    recorded at the stop are re-issued exactly."""
    cfg = copy.deepcopy(world.tomls[-1])
    ctx.check(cfg["current"]["cstep"] == st.cstep and cfg["current"]["traj_num"] == st.config["current"]["traj_num"]
              and cfg["current"]["active"] == st.live_paths()
              and all(p < cfg["current"]["traj_num"] for p in cfg["current"]["active"]),
              f"{PROP if PROP in ('C04', 'C05', 'C06') else 'C06'}:restart-file-records-current-counters",
              f"{cfg['current']['cstep']} {cfg['current']['active']}")
    cfg["current"]["restarted_from"] = cfg["current"]["cstep"]   # what setup_config adds
    w2 = World()
    saved_world = WORLD
    live_objs = {t.path_number: t for t in st._trajs[:-1]}
    try:
        st2 = new_state(cfg, w2)
        paths = []
        for pn in cfg["current"]["active"]:
            src = live_objs[pn]
            p = src.copy()            # what load_paths_from_disk returns: same frames, no weights yet
            p.weights = None
            p.path_number = pn
            paths.append(p)
        st2.load_paths(paths)
    except AssertionError as e:
        _install_world(saved_world)
        ctx.fail("C05:restart-file-loads (add_traj assertion)", repr(e))
        return
    except core.Inconclusive:
        raise
    except Exception as e:
        core.reraise_if_proxy_limitation(e)
        _install_world(saved_world)
        ctx.fail("C05:restart-file-loads", repr(e))
        return
    ok = st2.live_paths() == st.live_paths()
    ctx.check(ok, "C06:restart-restores-slot-order", f"{st2.live_paths()} vs {st.live_paths()}")
    same = all(bool(st2.state[i, j] == st.state[i, j]) for i in range(st.n) for j in range(st.n))
    ctx.check(same, "C06:restart-restores-weight-matrix")
    fr_ok = all(all(bool(a == b) for a, b in zip(st2.traj_data[pn]["frac"], st.traj_data[pn]["frac"])) for pn in st.live_paths())
    ctx.check(fr_ok, "C04:fractions-survive-the-restart-file")
    ctx.check(sorted(st2.traj_data) == sorted(st.traj_data), "C04:restart-holds-exactly-the-live-paths")
    # re-issue: the initiation loop must hand out exactly the recorded in-flight (ensemble, path) pairs first
    st2.config["simulation"]["steps"] = st2.cstep + 10
    reissued, issued2 = [], []
    try:
        nrec = len(st2.locked0)
        md0 = md0_of(st2)
        while len(reissued) < nrec and st2.initiate():
            md = st2.prep_md_items(copy.deepcopy(md0))
            issued2.append(md)
            if len(md["ens_nums"]) == 2:
                # run_md pairs the returned paths with picked.keys(): a zero swap must be handed over as ([0-], [0+])
                ctx.check(list(md["picked"].keys()) == [-1, 0] and md["ens_nums"] == [-1, 0],
                          "C11:re-issued-zero-swap-keeps-the-([0-],[0+])-order", f"{list(md['picked'].keys())}")
            reissued.append(sorted((e + 1, md["picked"][e]["traj"].path_number) for e in md["ens_nums"]))
        if nrec:
            ctx.check([st2._locks[i] for i in range(st.n)] == [st._locks[i] for i in range(st.n)] and
                      st2.live_paths() == st.live_paths(), "C06:restart-re-locks-the-same-ensembles",
                      f"{list(st2._locks)} vs {list(st._locks)}")
    except core.Inconclusive:
        raise
    except Exception as e:
        core.reraise_if_proxy_limitation(e)
        _install_world(saved_world)
        ctx.fail("C06:restart-re-issues-in-flight-jobs (exception)", repr(e))
        return
    norm = lambda L: sorted((sorted(int(x) for x in l[0]), sorted(str(y) for y in l[1])) for l in L)
    if nrec:
        ctx.check(norm(st2.locked) == norm(st.locked), "C06:re-issued-jobs-stay-on-record-for-the-next-restart-file",
                  f"{st2.locked} vs {st.locked}")
    # the initiation loop goes on until every worker has a job (fresh picks: first admissible index, both coin outcomes);
    # then one of the jobs -- the first re-issued one or the freshly picked one -- completes (rejected) on the restarted
    # state: its record must leave the locked list, and the restart file written then must again mirror exactly what is in
    # flight
    # (the extended leg -- full initiation, either job finishing, second restart -- runs on the first XLEG paths of an instance
    #  that get here; the others take the short leg: the first re-issued job finishes, no second restart)
    ext = bool(nrec and issued2) and PROP in ("C03", "C05", "C06") and ctx.gate("extended-restart-leg", XLEG)
    if nrec and issued2 and (ext or PROP != "C03"):
        try:
            if ext:
                rngmodel.GenModel.first_admissible = True
                try:
                    while st2.initiate():
                        issued2.append(st2.prep_md_items(copy.deepcopy(md0)))
                finally:
                    rngmodel.GenModel.first_admissible = False
                check_invariants(ctx, st2, issued2, "restarted-state-with-every-worker-busy")
            m2 = issued2.pop(0 if (not ext or len(issued2) < 2 or ctx.choice(2, "finishes-after-restart") == 0) else len(issued2) - 1)
            m2["status"] = "REJ"
            m2["moves"], m2["trial_len"], m2["trial_op"], m2["generated"] = ["sh"], [3], [(0.0, 1.0)], [("sh", 0, 0, 0)]
            st2.config["current"]["cstep"] = st2.cstep + 1
            st2.treat_output(m2)
            # self.locked holds ensemble numbers relative to [0-] = -1; the restart file holds slot indices (offset added)
            rel = norm([(list(mm["ens_nums"]), [str(mm["picked"][e]["traj"].path_number) for e in mm["ens_nums"]]) for mm in issued2])
            ab = norm([([e + st2._offset for e in mm["ens_nums"]], [str(mm["picked"][e]["traj"].path_number) for e in mm["ens_nums"]])
                       for mm in issued2])
            ctx.check(norm(st2.locked) == rel, "C06:restart-file-after-a-re-issued-job-finished-lists-only-jobs-in-flight",
                      f"locked {st2.locked} in flight {rel}")
            toml2 = w2.tomls[-1]["current"]["locked"]
            ctx.check(norm(toml2) == ab, "C05:restart-file-written-after-a-restart-lists-exactly-the-jobs-in-flight",
                      f"{toml2} vs {ab}")
            # ---- a second stop right here, and a second restart from the file just written: the jobs of the first run that are
            # still in flight must be handed out again to the same ensembles with the same paths (C03: each job holds a path
            # with non-zero weight in its ensemble, exactly the in-flight ensembles are marked busy)
            if ext and issued2:
                cfg3 = copy.deepcopy(w2.tomls[-1])
                cfg3["current"]["restarted_from"] = cfg3["current"]["cstep"]
                w3 = World()
                live2 = {t.path_number: t for t in st2._trajs[:-1]}
                st3 = new_state(cfg3, w3)
                paths3 = []
                for pn in cfg3["current"]["active"]:
                    p3 = live2[pn].copy()
                    p3.weights = None
                    p3.path_number = pn
                    paths3.append(p3)
                st3.load_paths(paths3)
                st3.config["simulation"]["steps"] = st3.cstep + 10
                issued3 = []
                md03 = md0_of(st3)
                nrec3 = len(st3.locked0)          # (pick_lock consumes locked0 as it goes)
                while len(issued3) < nrec3 and st3.initiate():
                    issued3.append(st3.prep_md_items(copy.deepcopy(md03)))
                P2 = PROP if PROP in ("C03", "C05", "C06") else "C06"
                got3 = sorted(sorted((e + 1, m["picked"][e]["traj"].path_number) for e in m["ens_nums"]) for m in issued3)
                want3 = sorted(sorted((e + 1, m["picked"][e]["traj"].path_number) for e in m["ens_nums"]) for m in issued2)
                ctx.check(got3 == want3, f"{P2}:second-restart-re-issues-exactly-the-jobs-still-in-flight", f"{got3} vs {want3}")
                check_invariants(ctx, st3, issued3, "after-second-restart")
                ctx.cover("restart:second")
                _install_world(w2)
        except core.Inconclusive:
            raise
        except (core._Abort, core._Stop, core._Skip):
            raise
        except Exception as e:
            core.reraise_if_proxy_limitation(e)
            _install_world(saved_world)
            ctx.fail(f"{PROP if PROP in ('C03', 'C05', 'C06') else 'C06'}:step-after-restart-completes", _tb(e))
            return
    want = sorted(sorted((e + 1, m["picked"][e]["traj"].path_number) for e in m["ens_nums"]) for m in inflight)
    ctx.check(sorted(reissued) == want, "C06:restart-re-issues-exactly-the-in-flight-jobs", f"{reissued} vs {want}")
    ctx.cover("restart:roundtrip")
    if st.cap is not None:
        ctx.cover("restart:with-cap")
    if inflight:
        ctx.cover("restart:with-in-flight")
    _install_world(saved_world)


def next_job(ctx, st, world, inflight, md):
    guard = ChoiceGuard(ctx)
    rngmodel.GenModel.choice_hook = guard
    pre_locks = [st._locks[i] for i in range(st.n)]
    try:
        md = st.prep_md_items(md)
    except AssertionError as e:
        ctx.fail(_assert_label(e, "pick"), _tb(e))
    except core.Inconclusive:
        raise
    except ZeroDivisionError as e:
        ctx.fail("C05:a-job-can-always-be-drawn", _tb(e))
    except Exception as e:
        core.reraise_if_proxy_limitation(e)
        ctx.fail(_assert_label(e, "pick"), _tb(e))
    finally:
        rngmodel.GenModel.choice_hook = None
    ctx.check(guard.calls >= 1, "C05:pick-used-the-scheduler-stream")
    if len(md["ens_nums"]) == 2:
        ctx.check(pre_locks[0] == 0 and pre_locks[1] == 0, "C03:zero-swap-only-when-both-idle", f"{pre_locks}")
        ctx.check(st._locks[0] == 1 and st._locks[1] == 1, "C03:zero-swap-holds-both", "")
        ctx.cover("pick:zero-swap")
    for e in md["ens_nums"]:
        ctx.check(pre_locks[e + 1] == 0, "C03:picked-ensemble-was-idle", f"ens {e}")
    inflight.append(md)
    return md


# --------------------------------------------------------------------------------------------------------- instances
def bounds(tier, prop):
    if tier == "quick":
        return {"ensembles k": "2..4 (ind), 2..3 (bmc depth 3)", "workers": "1..k-1", "moves": "all-sh, and wf in the plus ensembles",
                "outside": "k >= 5 (thorough), hole patterns, the real process pool"}
    return {"ensembles k": "2..5 (ind; k = 4 wire-fencing job sets every second one, k = 5 one in 16 (all-sh) / 48 (wf) by stable hash), "
                           "bmc (k, workers, depth): (2,1,4) (3,1,3) all-sh, (3,1,2) wf, (3,2,2) (4,2,1) (4,3,1) both",
            "workers": "1..k-1", "moves": "all-sh, wf variants",
            "outside": "k >= 6, hole patterns, the real process pool"}


def _jobsets(k, arrangement):
    """all sets of in-flight jobs (tuples of slots) realisable on this arrangement with <= k-1 workers."""
    n_slots = k
    pat = [[False] * k for _ in range(k)]
    pat[0][0] = True
    for j in range(1, k):
        for c in range(1, 1 + arrangement[j - 1]):
            pat[j][c] = True
    out = []
    slots = list(range(n_slots))
    for r in range(1, k + 1):
        for sub in itertools.combinations(slots, r):
            if any(not pat[s][s] for s in sub):
                continue
            idle = [s for s in slots if s not in sub]
            if not has_matching(pat, idle):
                continue
            groupings = [[(s,) for s in sub]]
            if 0 in sub and 1 in sub:
                groupings.append([(0, 1)] + [(s,) for s in sub if s not in (0, 1)])
            for g in groupings:
                if 1 <= len(g) <= k - 1:
                    out.append(g)
    return out


def _stable_hash(x):
    import hashlib
    return int(hashlib.md5(repr(x).encode()).hexdigest()[:8], 16)


def instances(tier, prop):
    if prop in ("C02", "C11"):
        # only one clause of these properties lives in the scheduler (C02: the cached matrix; C11: the order in which a
        # re-issued zero swap is handed over): a subset of the inductive-step instances
        sub = []
        for s in _instances(tier, "C05" if prop == "C11" else "C03"):
            if s["kind"] != "ind" or s["k"] > (3 if tier == "quick" else 4) or s.get("cap") or s.get("engines"):
                continue
            if prop == "C11" and not any(len(j) == 2 for j in s["jobs"]):
                continue
            sub.append(dict(s, prop=prop, restart=(prop == "C11"), numbering=("minushigh" if prop == "C11" else s["numbering"])))
        return sub
    out = _instances(tier, prop)
    if tier != "quick":
        out = [dict(s, xleg=24) for s in out]
    return out


def _instances(tier, prop):
    out = []
    quick = tier == "quick"
    kmax = 4 if quick else 5
    want_delete = prop == "C14"
    restart = prop in ("C04", "C05", "C06", "C03")   # C03: what is handed out after one and two restarts (k <= 3 and a third of k = 4)
    for k in range(2, kmax + 1):
        movesets = [["sh"] * k]
        if k >= 3:
            movesets.append(["sh", "sh"] + ["wf"] * (k - 2))
            if k <= 3 or not quick:
                movesets.append(["sh"] + ["wf"] * (k - 1))
        for moves in movesets:
            wf = "wf" in moves
            for arr in itertools.product(range(1, k), repeat=k - 1):
                for jobs in _jobsets(k, arr):
                    h = _stable_hash((k, moves, arr, jobs))
                    # thinning of the largest families (stated in bounds): every arrangement is kept, job sets are thinned
                    thin = k == 4 and quick and h % 3 != 0
                    if thin and wf:
                        continue
                    # thorough: k = 4 complete for all-'sh', every second job set with wire fencing; k = 5 thinned hard
                    if not quick and k == 4 and wf and h % 2:
                        continue
                    if k == 5 and (h % (48 if wf else 16)):
                        continue
                    # on the quick tier two thirds of the k = 4 all-'sh' pre-states run without the (expensive) restart leg
                    out.append({"kind": "ind", "k": k, "moves": moves, "arr": list(arr), "jobs": [list(j) for j in jobs],
                                "numbering": "later" if want_delete else "initial",
                                "delete": "lag" if want_delete else "off", "restart": restart and not thin and (prop != "C03" or k <= 3 or h % 9 == 0),
                                "prop": prop, "_cost": k ** 3 * len(jobs) * (4 if wf else 1)})
    if prop in ("C06", "C04", "C05"):
        # with an interface cap: weights recomputed at a restart must use the cap as well
        for k in (3, 4):
            moves = ["sh", "sh"] + ["wf"] * (k - 2)
            for arr in itertools.product(range(1, k), repeat=k - 1):
                for jobs in _jobsets(k, arr):
                    hh = _stable_hash(("cap", k, arr, jobs))
                    if hh % (6 if (quick and k == 4) else 2):
                        continue
                    out.append({"kind": "ind", "k": k, "moves": moves, "arr": list(arr), "jobs": [list(j) for j in jobs],
                                "numbering": "initial", "delete": "off", "restart": True, "prop": prop, "cap": True,
                                "_cost": k ** 3 * len(jobs) * 4})
    if prop == "C03":
        extra = []
        for s in out:
            if s["kind"] == "ind" and s["k"] in (3, 4) and "wf" not in s["moves"] and len(s["jobs"]) >= 2:
                for lay in ("mixed", "quantis"):
                    if quick and _stable_hash((lay, s["arr"], s["jobs"])) % 2:
                        continue
                    extra.append(dict(s, engines=lay))
        out += extra
    # (k, workers, depth, move sets): measured single-core cost grows about x8 (k = 2) to x18 (k = 3) per level of depth;
    # the thorough tier takes what fits into about 25 minutes on 16 cores (wire fencing one level shallower)
    bm = [(2, 1, 3, "both"), (3, 1, 2, "both"), (3, 2, 2, "both")] if quick else \
         [(2, 1, 4, "both"), (3, 1, 3, "sh"), (3, 2, 2, "both"), (3, 1, 2, "wf"), (4, 2, 1, "both"), (4, 3, 1, "both")]
    for k, w, D, which in bm:
        msets = [["sh"] * k] if which != "wf" else []
        if k >= 3 and which != "sh":
            msets.append(["sh", "sh"] + ["wf"] * (k - 2))
        for moves in msets:
            for arr in itertools.product(range(1, k), repeat=k - 1):
                if any(arr[i] < i + 1 for i in range(k - 1)):
                    continue  # initial paths must be valid in their own ensemble
                out.append({"kind": "bmc", "k": k, "workers": w, "moves": moves, "arr": list(arr), "depth": D,
                            "delete": "on" if (want_delete or (k + w) % 2) else "off", "restart": restart and prop != "C03", "prop": prop,
                            "_cost": (3 * k) ** D * 50, "_splitbits": 4 if (quick or D <= 1) else 6, "_splitdepth": 4 if (quick or D <= 1) else 5})
    return out


EXPECT = ["restart:with-cap", "ind:accepted", "ind:rejected", "ind:zero-swap-in-flight", "pick:zero-swap", "restart:roundtrip",
          "restart:with-in-flight", "restart:second", "bmc:depth-reached", "sort:swapped", "delete:removed"]


def expect(tier, prop):
    if prop == "C02":
        return ["ind:accepted", "ind:rejected", "sort:swapped"]
    if prop == "C11":
        return ["restart:with-in-flight", "ind:zero-swap-in-flight"]
    e = list(EXPECT)
    if prop not in ("C04", "C05", "C06"):
        e = [x for x in e if x != "restart:with-cap"]
    if prop == "C04":
        e = [x for x in e if x != "restart:second"]
    if prop == "C03":
        e = [x for x in e if not x.startswith("restart:") or x == "restart:second"]
    elif prop not in ("C04", "C05", "C06"):
        e = [x for x in e if not x.startswith("restart:")]
    if prop != "C14":
        e = [x for x in e if x != "delete:removed"]
    return e


XLEG = 6


def run_instance(ctx, shape):
    global PROP, XLEG
    PROP = shape.get("prop", "C05")
    XLEG = shape.get("xleg", 6)
    rngmodel.REG.ids.clear()
    try:
        if shape["kind"] == "ind":
            return _ind(ctx, shape)
        return _bmc(ctx, shape)
    except _EndPath:
        return


def _fill_fracs(ctx, st):
    """symbolic accumulated fractions: positive where the path's weight is non-zero, exact zero elsewhere."""
    n = st.n
    for i, t in enumerate(st._trajs[:-1]):
        fr = np.empty(n, dtype=object)
        for c in range(n):
            fr[c] = ctx.real(f"frac_p{t.path_number}_c{c}", lo=0) if bool(nz(st.state[i, c])) else qconst(0)
        st.traj_data[t.path_number]["frac"] = fr


def _ind(ctx, sh):
    k, moves, arr, jobs = sh["k"], sh["moves"], sh["arr"], [tuple(j) for j in sh["jobs"]]
    workers = len(jobs)
    world = World()
    delete_old = sh["delete"] != "off"
    global CLIMB
    CLIMB = bool(sh.get("cap"))
    cfg = base_config(k, workers, moves, steps=10 ** 6, delete_old=delete_old, delete_all=delete_old,
                      engines=_engine_layout(k, sh.get("engines", "single")), cap=cap_for(k) if sh.get("cap") else None)
    st = new_state(cfg, world)
    n = st.n
    # ---- arbitrary arrangement (all idle), set directly
    base = 0 if sh["numbering"] in ("initial", "minushigh") else 3 * k
    wf = "wf" in moves[1:]
    wfpat = ctx.choice(2, "wf-frame-pattern") if wf else 0
    # 'minushigh': the minus path carries the highest number (it was replaced most recently)
    mh = sh["numbering"] == "minushigh"
    paths = [mk_minus_path(k, base + (k if mh else 0))]
    for j in range(1, k):
        paths.append(mk_plus_path(k, arr[j - 1], 1 + ((j + wfpat) % 2 if wf else 0), base + j))
    for slot, p in enumerate(paths):
        p.weights = _weights(st, p, slot - 1)
        valid = (tuple([0] + list(p.weights)) if slot >= 1 else tuple(list(p.weights) + [0] * (n - 1)))
        st._trajs[slot] = p
        st.state[slot, :] = valid
        st._locks[slot] = 0
        st.traj_data[p.path_number] = {"ens_save_idx": slot, "max_op": p.ordermax, "min_op": p.ordermin, "length": p.length,
                                       "adress": p.adress, "weights": p.weights, "frac": None}
    st._last_prob = None
    cfg["current"]["traj_num"] = base + k + (1 if mh else 0) + ctx.choice(2, "traj_num-gap")
    cfg["current"]["active"] = st.live_paths()
    cfg["current"]["cstep"] = 5
    _fill_fracs(ctx, st)
    if sh["delete"] == "lag":
        # a delete queue of dead, later paths: either short (no deletion yet) or full (lag reached)
        q = ctx.choice(2, "queue")
        qlen = (n - 1) if q else max(0, n - 3)
        for i in range(qlen):
            dead = base + k + 10 + i
            st.pn_olds[str(dead)] = {"adress": {f"/sim/load/{dead}/accepted/traj.xyz"}}
    # ---- the in-flight jobs, through the real initiation code with forced picks
    script = []
    for g in jobs:
        if len(g) == 1:
            script.append(("choice", g[0] * n + g[0]))
            if g[0] in (0, 1):
                script.append(("coin", False))
        else:
            script.append(("choice", 1 * n + 1))     # pick [0+] first, then the coin says swap, then the partner
            script.append(("coin", True))
            script.append(("choice", 0))
    inflight = _drive_initiation(ctx, st, script)
    if inflight is None:
        return
    got = sorted(tuple(sorted(e + 1 for e in m["ens_nums"])) for m in inflight)
    if got != sorted(tuple(sorted(g)) for g in jobs):
        ctx.note("prestate-not-realisable")
        ctx.assume(False)
    if any(len(m["ens_nums"]) == 2 for m in inflight):
        ctx.cover("ind:zero-swap-in-flight")
    st.rgen = rngmodel.default_rng_model(0)       # from here on every draw is nondeterministic
    check_invariants(ctx, st, inflight, "pre")
    # ---- step: a job finishes
    pre_order = st.live_paths()
    m, outcome = finish_job(ctx, st, world, inflight, k, wf_m=(1, 2))
    ctx.cover("ind:accepted" if outcome else "ind:rejected")
    check_invariants(ctx, st, inflight, "after-treat_output", after_treat=True)
    if [p for p in st.live_paths() if p in pre_order] != [p for p in pre_order if p in st.live_paths()]:
        ctx.cover("sort:swapped")
    if sh.get("restart", True):
        restart_roundtrip(ctx, st, world, inflight, k)
    # ---- step: the idle worker gets a new job
    next_job(ctx, st, world, inflight, m)
    check_invariants(ctx, st, inflight, "after-pick")
    # ---- the invariant was broken (an assertion of another HRX property failed): follow the history for two more steps so
    #      that the consequences for the property under check become observable (or not)
    extra = 0
    # (budget: the first 4 such paths of an instance are followed; on code that breaks another property everywhere the
    #  follow-ups would otherwise multiply every path by the square of the branching factor)
    while getattr(ctx, "other_hit", False) and extra < 2 and inflight and (extra or ctx.gate("follow-broken-invariant", 4)):
        extra += 1
        ctx.cover("ind:followed-broken-invariant")
        m, outcome = finish_job(ctx, st, world, inflight, k, wf_m=(1,))
        check_invariants(ctx, st, inflight, f"follow-up#{extra}-after-treat_output", after_treat=True)
        if sh.get("restart", True):
            restart_roundtrip(ctx, st, world, inflight, k)
        next_job(ctx, st, world, inflight, m)
        check_invariants(ctx, st, inflight, f"follow-up#{extra}-after-pick")


class _ScriptedGen(rngmodel.GenModel):
    """generator model replaying a script of forced outcomes (used only to build pre-states)."""
    script: list = []

    def random(self, size=None):
        kind, v = type(self).script.pop(0)
        assert kind == "coin"
        self._tick("random", v)
        return 0.25 if v else 0.75

    def choice(self, n, p=None):
        if not type(self).script or type(self).script[0][0] != "choice":
            raise core._Abort()
        kind, v = type(self).script.pop(0)
        if p is not None and not (p[v] > 0):
            raise core._Abort()       # this pre-state is not realisable by picks
        self._tick("choice", v)
        return v


def _drive_initiation(ctx, st, script):
    _ScriptedGen.script = list(script)
    st.rgen = _ScriptedGen(rngmodel.BitGenModel(0))
    inflight = []
    md0 = md0_of(st)
    try:
        while st.initiate():
            # zero-swap availability changes what the coin is asked: drop unused coin entries
            md = st.prep_md_items(copy.deepcopy(md0))
            inflight.append(md)
            while _ScriptedGen.script and _ScriptedGen.script[0][0] == "coin":
                _ScriptedGen.script.pop(0)
    except core._Abort:
        ctx.note("prestate-not-realisable")
        raise
    except AssertionError as e:
        if "coin" in repr(e):
            ctx.note("prestate-not-realisable")
            raise core._Abort()
        ctx.fail("C03:repo-assertion-during-initiation", repr(e))
    return inflight


def _bmc(ctx, sh):
    k, w, moves, arr, D = sh["k"], sh["workers"], sh["moves"], sh["arr"], sh["depth"]
    world = World()
    delete_old = sh["delete"] == "on"
    global CLIMB
    CLIMB = False
    steps = D if ctx.choice(2, "steps-bound") else 10 ** 6
    cfg = base_config(k, w, moves, steps=steps, delete_old=delete_old, delete_all=False)
    try:
        st = new_state(cfg, world)
        paths = [mk_minus_path(k, 0)] + [mk_plus_path(k, arr[j - 1], 1, j) for j in range(1, k)]
        st.load_paths(paths)
    except Exception as e:
        core.reraise_if_proxy_limitation(e)
        ctx.fail("C05:initialisation", repr(e))
        return
    inflight = []
    md0 = md0_of(st)
    check_invariants(ctx, st, inflight, "initial", after_treat=True)
    guard = ChoiceGuard(ctx)
    try:
        while st.initiate():
            md = copy.deepcopy(md0)
            next_job(ctx, st, world, inflight, md)
            check_invariants(ctx, st, inflight, "initiation")
    except core.Inconclusive:
        raise
    done = 0
    while done < D:
        try:
            more = st.loop()
        except Exception as e:
            core.reraise_if_proxy_limitation(e)
            ctx.fail("C05:loop", repr(e))
            return
        if not more:
            break
        if not inflight:
            ctx.fail("C05:sampler-stalled (no job in flight while steps remain)", f"cstep {st.cstep}")
        m, outcome = finish_job(ctx, st, world, inflight, k)
        done += 1
        check_invariants(ctx, st, inflight, f"after-treat_output#{done}", after_treat=True)
        if sh.get("restart", True) and (done == D or done == 1):
            restart_roundtrip(ctx, st, world, inflight, k)
        if st.cstep + st.workers <= st.tsteps:
            next_job(ctx, st, world, inflight, m)
            check_invariants(ctx, st, inflight, f"after-pick#{done}")
    if done == D:
        ctx.cover("bmc:depth-reached")
    if steps == D:
        ctx.check(st.cstep <= steps, "C05:step-counter-within-bound")
