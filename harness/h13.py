"""H13 -- C13 (text readers): the on-the-fly XYZ and LAMMPS-dump readers never return a torn frame."""
from __future__ import annotations

import builtins
import logging

import numpy as np

import infretis.classes.engines.engineparts as iep
from symx import core, npfacade
from symx.core import Q, qconst

logging.disable(logging.CRITICAL)

PROPERTIES = ["C13"]
EXPLANATION = ("H13: ReadAndProcessOnTheFly.read_and_process_content with xyz_reader / lammpstrj_reader executed on a fake file "
               "whose content is the written trajectory cut at a nondeterministic position (every token boundary, inside every "
               "token, with/without the newline), polled 1..2 times with growing cuts and then complete. Structural tokens (atom "
               "counts, ids, headers) are concrete text with every character prefix enumerated; every floating-point token carries "
               "a symbolic written value, a truncated one parses to a FRESH symbolic value -- so a reader that accepts a truncated "
               "number is a solver counterexample. Returned frames are compared with the completely written ones.")
ASSUMPTIONS = [
    "str.split / readline / int() / float() themselves are trusted; a proper prefix (or the remaining suffix) of a written "
    "number parses to an arbitrary other number",
    "the writer appends frames; a cut never removes earlier bytes",
    "TRR: read_trr_header / get_data (struct decoding) are replaced by extent-recording stubs with symbolic header (<= 1000 "
    "bytes = TRR_HEAD_SIZE) and data sizes, constant over the run; the file size seen at every look is an arbitrary "
    "non-decreasing integer; only the size guards and the frame bookkeeping of GromacsRunner are decided (byte order / "
    "precision decoding is outside)",
    "atom ids are written in ascending order 1..N (the reader sorts by id; other orders only permute rows)",
]
KNOWN_XYZ = "C13-xyz-reader-accepts-truncated-line"


# ------------------------------------------------------------------------------------------------ symbolic text
class FTok:
    """a floating-point token: `part` is 'full', 'prefix' (proper non-empty prefix) or 'suffix' (the rest after a prefix)."""

    def __init__(self, name, part="full"):
        self.name, self.part = name, part

    def value(self):
        ctx = core.CUR
        return ctx.real(self.name if self.part == "full" else f"{self.name}.{self.part}")

    def __repr__(self):
        return f"<{self.name}:{self.part}>"

    def __eq__(self, other):
        return isinstance(other, FTok) and (self.name, self.part) == (other.name, other.part)

    def __ne__(self, other):
        return not self == other

    __hash__ = None


class SymLine:
    def __init__(self, toks, newline):
        self.toks, self.newline = toks, newline

    def split(self):
        return list(self.toks)

    def __eq__(self, other):
        if isinstance(other, str):
            if other == "\n":
                return not self.toks and self.newline
            if other == "":
                return False
        return NotImplemented

    def __ne__(self, other):
        r = self.__eq__(other)
        return r if r is NotImplemented else not r

    def __getitem__(self, i):
        if i == -1:
            return "\n" if self.newline else "x"
        raise IndexError(i)

    def __repr__(self):
        return f"Line({self.toks},{'NL' if self.newline else '--'})"


def sym_float(x):
    if isinstance(x, FTok):
        return x.value()
    return builtins.float(x)


def sym_int(x, *a):
    if isinstance(x, FTok):
        raise ValueError("invalid literal for int()")
    return builtins.int(x, *a)


class FakeFile:
    """the written file, visible up to `cut` = (line, atom, offset): everything before atom `atom` of line `line`, plus the
    first `offset` characters of that token (offset > 0 = cut inside the token). Atoms of a line: tok, ..., tok, NEWLINE."""

    def __init__(self, lines, cut):
        self.lines = lines
        self.cut = (cut[0], cut[1], int(cut[2]))
        self.pos = (0, 0, 0)

    def __enter__(self):
        return self

    def __exit__(self, *a):
        return False

    def seek(self, p):
        self.pos = (0, 0, 0) if p == 0 else p

    def tell(self):
        return self.pos

    def readline(self):
        li, k, off = self.pos
        cl, ck, coff = self.cut
        if (li, k, off) >= (cl, ck, coff) or li >= len(self.lines):
            return ""
        toks = self.lines[li]
        out = []
        if off:                       # resume in the middle of a token
            t = toks[k]
            if (li, k) == (cl, ck):   # the view again ends inside this token
                out.append(FTok(t.name, "suffix") if isinstance(t, FTok) else t[off:coff])
                self.pos = (li, k, coff)
                return SymLine(out, False)
            out.append(FTok(t.name, "suffix") if isinstance(t, FTok) else t[off:])
            k += 1
        while True:
            if (li, k) == (cl, ck):   # the view ends here
                if coff:
                    t = toks[k]
                    out.append(FTok(t.name, "prefix") if isinstance(t, FTok) else t[:coff])
                self.pos = (li, k, coff)
                return SymLine(out, False)
            if k == len(toks):        # the newline is inside the view
                self.pos = (li + 1, 0, 0)
                return SymLine(out, True)
            out.append(toks[k])
            k += 1


def install():
    npfacade.install(iep, int=sym_int, float=sym_float)


def functions():
    import infretis.classes.engines.gromacs as igmx
    return [iep.ReadAndProcessOnTheFly.read_and_process_content, iep.xyz_reader, iep.lammpstrj_reader,
            igmx.GromacsRunner.get_gromacs_frames, igmx.read_remaining_trr]


def bounds(tier, prop):
    return {"atoms": "1..2 (12 for the count-prefix case)", "frames": "2 (3 thorough)", "polls": "1..2 partial polls, then the complete file twice",
            "cut positions": "every token boundary, inside every token (every character prefix of structural tokens), with and without newline",
            "outside": "TRR (binary) reader; more atoms/frames (line handling is uniform)"}


def instances(tier, prop):
    out = []
    nf = 2 if tier == "quick" else 3
    for fmt in ("xyz", "lammps"):
        for natoms in ((1, 2, 12) if fmt == "xyz" else (1, 2)):
            for polls in (1, 2):
                if natoms == 12 and polls == 2:
                    continue
                out.append({"fmt": fmt, "natoms": natoms, "frames": nf if natoms < 12 else 1, "polls": polls, "boxcols": 2,
                            "_cost": (natoms * 10) ** polls, "_splitbits": 3 if polls == 2 else 0})
        if fmt == "lammps":
            out.append({"fmt": fmt, "natoms": 1, "frames": 2, "polls": 1, "boxcols": 3, "_cost": 20})
    for frames in ((1, 2) if tier == "quick" else (1, 2, 3)):
        out.append({"fmt": "trr", "frames": frames, "polls": 3, "looks": 5 if tier == "quick" else 7, "_cost": 4 ** frames * 50,
                    "_splitbits": 3 if frames >= 2 else 0})
    return out


EXPECT = ["trr:all-frames", "trr:waited-for-data", "cut:inside-float", "cut:inside-structural", "cut:before-newline", "poll:returned-partial-set", "final:all-frames"]


def _xyz_lines(natoms, frames):
    lines = []
    for f in range(frames):
        lines.append([str(natoms)])
        lines.append(["i", "=", str(f)])
        for a in range(natoms):
            lines.append(["H"] + [FTok(f"f{f}a{a}c{c}") for c in range(3)])
    return lines


def _lmp_lines(natoms, frames, boxcols):
    lines = []
    for f in range(frames):
        lines.append(["ITEM:", "TIMESTEP"])
        lines.append([str(f * 10)])
        lines.append(["ITEM:", "NUMBER", "OF", "ATOMS"])
        lines.append([str(natoms)])
        lines.append(["ITEM:", "BOX", "BOUNDS", "pp", "pp", "pp"])
        for d in range(3):
            lines.append([FTok(f"f{f}b{d}c{c}") for c in range(boxcols)])
        lines.append(["ITEM:", "ATOMS", "id", "type", "x", "y", "z", "vx", "vy", "vz", "id"])
        for a in range(natoms):
            lines.append([str(a + 1), "1"] + [FTok(f"f{f}a{a}c{c}") for c in range(6)] + [str(a + 1)])
    return lines


def _cuts(lines):
    """all cut positions: before each atom of each line, inside each token, and before the newline."""
    out = []
    for li, toks in enumerate(lines):
        for k in range(len(toks) + 1):
            out.append((li, k, False))
            if k < len(toks):
                t = toks[k]
                if isinstance(t, FTok):
                    out.append((li, k, 1))
                else:
                    for c in range(1, len(t)):
                        out.append((li, k, c))
    out.append((len(lines), 0, False))
    return out


def _complete_frames(lines, cut, fmt, natoms, per_frame):
    """number of frames whose every value token is completely inside the view (the final newline may be missing)."""
    li, k, inside = cut[0], cut[1], cut[2]
    n = 0
    while True:
        last = (n + 1) * per_frame - 1
        if li > last:
            n += 1
            continue
        if li == last and k >= len(lines[last]) and not inside:
            n += 1
        break
    return n


def run_instance(ctx, sh):
    if sh["fmt"] == "trr":
        return _trr(ctx, sh)
    fmt, natoms, frames, polls = sh["fmt"], sh["natoms"], sh["frames"], sh["polls"]
    lines = _xyz_lines(natoms, frames) if fmt == "xyz" else _lmp_lines(natoms, frames, sh["boxcols"])
    per_frame = natoms + 2 if fmt == "xyz" else natoms + 9
    cuts = _cuts(lines)
    idx = []
    lo = 0
    for p in range(polls):
        i = lo + ctx.choice(len(cuts) - lo, f"cut{p}")
        idx.append(i)
        lo = i
    views = [cuts[i] for i in idx] + [cuts[-1], cuts[-1]]
    for c in views[:polls]:
        if c[2]:
            t = lines[c[0]][c[1]]
            ctx.cover("cut:inside-float" if isinstance(t, FTok) else "cut:inside-structural")
        elif c[0] < len(lines) and c[1] == len(lines[c[0]]):
            ctx.cover("cut:before-newline")
    state = {"view": None}
    saved_open = iep.__dict__.get("open")
    iep.open = lambda path, mode="r", **k: FakeFile(lines, state["view"])
    reader = iep.ReadAndProcessOnTheFly("traj", iep.xyz_reader if fmt == "xyz" else iep.lammpstrj_reader)
    got, gotbox = [], []
    try:
        for vi, view in enumerate(views):
            state["view"] = view
            try:
                res = reader.read_and_process_content()
            except core.Inconclusive:
                raise
            except (core._Abort, core._Stop, core._Skip):
                raise
            except Exception as e:
                core.reraise_if_proxy_limitation(e)
                ctx.check(False, "C13:never-raises-on-a-partial-frame", f"poll {vi} cut {view}: {e!r}",
                          known_key=KNOWN_XYZ if fmt == "xyz" else None)
                return
            fr = res if fmt == "xyz" else res[0]
            bx = [] if fmt == "xyz" else res[1]
            got += list(fr)
            gotbox += list(bx)
            complete = _complete_frames(lines, view, fmt, natoms, per_frame)
            if len(got) > complete:
                ctx.check(False, "C13:returns-only-completely-written-frames",
                          f"{len(got)} frames returned with {complete} complete at cut {view}",
                          known_key=KNOWN_XYZ if fmt == "xyz" else None)
                return
            if 0 < len(got) < frames and vi < polls:
                ctx.cover("poll:returned-partial-set")
    finally:
        if saved_open is None:
            del iep.open
        else:
            iep.open = saved_open
    ok_n = len(got) == frames
    ctx.check(ok_n, "C13:every-complete-frame-returned-exactly-once", f"{len(got)} of {frames}",
              known_key=None if ok_n or fmt != "xyz" else KNOWN_XYZ)
    if not ok_n:
        return
    ctx.cover("final:all-frames")
    ncol = 3 if fmt == "xyz" else 6
    for f, arr in enumerate(got):
        ok = arr.shape == (natoms, ncol)
        ctx.check(ok, "C13:frame-shape", f"{arr.shape}", known_key=None if ok or fmt != "xyz" else KNOWN_XYZ)
        if not ok:
            return
        for a in range(natoms):
            for c in range(ncol):
                v = arr[a, c]
                v = v.value() if isinstance(v, FTok) else v
                w = ctx.real(f"f{f}a{a}c{c}")
                same = bool(v == w)
                ctx.check(same, "C13:returned-values-are-exactly-the-written-ones", f"frame {f} atom {a} col {c}: {arr[a, c]!r}",
                          known_key=None if same or fmt != "xyz" else KNOWN_XYZ)
    for f, b in enumerate(gotbox):
        for d in range(3):
            for c in range(sh["boxcols"]):
                v = b[d, c]
                v = v.value() if isinstance(v, FTok) else v
                ctx.check(bool(v == ctx.real(f"f{f}b{d}c{c}")), "C13:returned-box-is-exactly-the-written-one", f"frame {f} {d},{c}")


# ================================================================================================ TRR size guards (LIA)
def _trr(ctx, sh):
    """GromacsRunner.get_gromacs_frames / read_remaining_trr with symbolic header/data sizes and a symbolic, non-decreasing
    file size at every look: every read extent must lie inside what is on disk at that moment; frames once, in order; after
    the program has exited every complete frame is yielded."""
    import infretis.classes.engines.gromacs as igmx
    N = sh["frames"]
    H = ctx.int("header_bytes", 1, 1000)
    D = ctx.int("data_bytes", 1, 10 ** 6)
    total = N * (H + D)
    w = {"size": qconst(0), "looks": 0, "pos": qconst(0), "reads": [], "polls": 0, "exit_after": ctx.choice(sh["polls"] + 1, "exit-after-polls")}

    def grow():
        """the file has grown to an arbitrary size since the last look (all of it once the writer has exited)"""
        w["looks"] += 1
        if w["polls"] > w["exit_after"] or w["looks"] > sh["looks"]:
            w["size"] = total
            return total
        s = ctx.int(f"size{w['looks']}", 0, None)
        ctx.assume(ctx.rel(s, ">=", w["size"]))
        ctx.assume(ctx.rel(s, "<=", total))
        w["size"] = s
        return s

    class _Proc:
        pid, returncode, stdin, stdout, stderr = 1, None, None, None, None

        def poll(self):
            w["polls"] += 1
            if w["polls"] > w["exit_after"]:
                self.returncode = 0
                return 0
            return None

        def wait(self, timeout=None):
            return 0

    class _FH:
        closed = False

        def close(self):
            self.closed = True

    def read_header(fileh):
        ok = w["pos"] + H <= w["size"]
        ctx.check(ok, "C13:trr-header-read-lies-inside-what-is-on-disk", f"read at {w['pos']} of {H} bytes, size {w['size']}")
        w["pos"] = w["pos"] + H
        hdr = {k: 0 for k in igmx.TRR_DATA_ITEMS}
        hdr["x_size"] = D
        return hdr, H

    def get_data(fileh, header):
        ok = w["pos"] + D <= w["size"]
        ctx.check(ok, "C13:trr-data-read-lies-inside-what-is-on-disk", f"read at {w['pos']} of {D} bytes, size {w['size']}")
        w["pos"] = w["pos"] + D
        w["reads"].append(len(w["reads"]))
        return {"frame": len(w["reads"]) - 1}, D

    class _OSP:
        @staticmethod
        def getsize(f):
            return grow()

    class _OS:
        path = _OSP()
        getpgid = staticmethod(lambda p: p)
        killpg = staticmethod(lambda a, b: None)

    names = ("os", "sleep", "read_trr_header", "get_data", "reopen_file")
    saved = {k: getattr(igmx, k) for k in names}
    igmx.os, igmx.sleep = _OS, (lambda t: None)
    igmx.read_trr_header, igmx.get_data = read_header, get_data
    igmx.reopen_file = lambda *a: (None, None)
    r = igmx.GromacsRunner.__new__(igmx.GromacsRunner)
    r.cmd, r.trr_file, r.edr_file, r.exe_dir = ["gmx"], "t.trr", "e.edr", "/exe"
    r.fileh, r.running, r.bytes_read, r.ino, r.stop_read = _FH(), _Proc(), 0, 0, False
    r.data_size, r.header_size, r.stdout, r.stderr, r.stdout_name, r.stderr_name = 0, 0, None, None, None, None
    got = []
    try:
        try:
            for data in r.get_gromacs_frames():
                got.append(data["frame"])
                ctx.check(bool(w["pos"] == len(got) * (H + D)), "C13:trr-reader-consumed-whole-frames-only", f"{w['pos']}")
        except core.Inconclusive:
            raise
        except (core._Abort, core._Stop, core._Skip):
            raise
        except Exception as e:
            core.reraise_if_proxy_limitation(e)
            ctx.fail("C13:never-raises-on-a-partial-frame", f"trr: {e!r}")
    finally:
        for k, v in saved.items():
            setattr(igmx, k, v)
        r.running = None
    ctx.check(got == list(range(len(got))), "C13:every-complete-frame-returned-exactly-once", f"trr order {got}")
    ctx.check(len(got) == N, "C13:every-complete-frame-returned-exactly-once", f"trr: {len(got)} of {N} after the program exited")
    ctx.cover("trr:all-frames")
    if w["looks"] > 2:
        ctx.cover("trr:waited-for-data")
