"""H18 -- C18: invalid configurations are rejected up front; accepted ones initialise."""
from __future__ import annotations

import copy
import itertools
import logging

import infretis.classes.repex as rx
import infretis.setup as isetup
from harness import hrx as X
from infretis.classes.path import Path
from infretis.classes.system import System
from symx import core, npfacade, rngmodel
from symx.core import Q

logging.disable(logging.CRITICAL)

PROPERTIES = ["C18"]
EXPLANATION = ("H18: check_config executed on configurations whose interface values, cap, lambda_-1 and worker count are "
               "symbolic (every ordering and coincidence of the interface values is a solver-decided path); the verdict is "
               "compared with the property's list of invalid configurations; for accepted configurations the real "
               "REPEX_state.__init__, initiate_ensembles, load_paths (initial paths valid for their ensembles, built relative "
               "to the symbolic interfaces) and the first `workers` picks are run.")
ASSUMPTIONS = [
    "workers >= 1 (the property lists only 'more workers than ensembles minus one')",
    "initial paths: [0-] path crossing lambda_0 from the right; the [i+] path climbs through one frame in every region "
    "[lambda_j, min(cap, lambda_{j+1})) for j <= i, so that weight rows are staircase rows (paths that jump over a capped "
    "wire-fencing region give hole patterns, which inf_retis documents as unsupported: outside the claim)",
    "rng / file layer stubbed as in HRX; TOML re-read fixed point (setup_config) outside",
]
KNOWN_ROOM = "C18-cap-leaves-wf-ensemble-no-room"
KNOWN_ZERO = "C18-cap-zero-treated-as-absent"


def symset(it):
    """set() for setup.py: deduplicate by (solver-decided) equality."""
    out = []
    for x in it:
        if not any((x is y) or bool(x == y) for y in out):
            out.append(x)
    return out


def install():
    X.install()
    isetup.set = symset
    isetup.sorted = sorted


def functions():
    R = rx.REPEX_state
    return [isetup.check_config, R.__init__, R.initiate_ensembles, R.load_paths, R.initiate, R.prep_md_items, R.pick]


def bounds(tier, prop):
    return {"interfaces": "0..4 values, arbitrary reals (any order, ties)", "shooting moves": "len in k-1..k+1, all sh/wf vectors",
            "workers": "symbolic integer >= 1", "cap / lambda_-1": "absent or arbitrary real",
            "engines": "single default engine (defined or not); ensemble_engines layouts over 3 names (2 ensembles: 1..2 names each, "
                       "3 ensembles: 1 name each), every name undefined or one of 5 definitions (turtlemd without input_path, cp2k, "
                       "3 gromacs variants sharing / not sharing input_path)",
            "outside": "more than 4 interfaces; engine sections without a class; setup_config's TOML reading"}


def instances(tier, prop):
    out = []
    kmax = 4
    for k in range(0, kmax + 1):
        for nm in sorted({max(0, k - 1), k, k + 1}):
            mvs = set()
            for mv in itertools.product(("sh", "wf"), repeat=nm):
                # ensemble 0 ([0-]) is always 'sh' in practice; keep both for nm <= 3, thin above
                if nm >= 4 and mv[0] == "wf":
                    continue
                mvs.add(mv)
            for mv in sorted(mvs):
                for cap in (False, True):
                    if not cap and "wf" in mv and nm >= 4 and tier == "quick" and mv.count("wf") > 2:
                        continue
                    for lm1 in (False, True):
                        if lm1 and cap and k >= 4 and tier == "quick":
                            continue
                        out.append({"k": k, "moves": list(mv), "cap": cap, "lm1": lm1, "quantis": False, "engine": True,
                                    "_cost": (k + 1) ** (k + 1) * (4 if cap else 1) * (3 if lm1 else 1),
                                    "_splitbits": 3 if (k == 4 and cap) else 0})
        for quantis, engine in ((True, True), (False, False)):
            out.append({"k": k, "moves": ["sh"] * k, "cap": False, "lm1": quantis, "quantis": quantis, "engine": engine,
                        "_cost": (k + 1) ** (k + 1)})
    # multi-engine layouts (simulation.ensemble_engines): which names an ensemble lists is the instance, what each name is
    # (undefined / defined with one of several classes and input paths) is a nondeterministic choice per name
    names = ["engA", "engB", "engC"]
    per_ens = [[a] for a in names] + [[a, b] for a in names for b in names if a != b]
    for lay in itertools.product(per_ens, repeat=2):
        out.append({"k": 2, "moves": ["sh", "sh"], "cap": False, "lm1": False, "quantis": False, "engine": True,
                    "elay": [list(e) for e in lay], "_cost": 300})
    for lay in itertools.product([[a] for a in names], repeat=3):
        out.append({"k": 3, "moves": ["sh"] * 3, "cap": False, "lm1": False, "quantis": False, "engine": True,
                    "elay": [list(e) for e in lay], "_cost": 300})
    return out


ENGINE_KINDS = [None,                                                          # not defined
                {"class": "turtlemd", "timestep": 0.1},                      # no input_path at all
                {"class": "cp2k", "input_path": "p1", "timestep": 0.5},
                {"class": "gromacs", "input_path": "p1", "gmx": "gmx"},
                {"class": "gromacs", "input_path": "p2", "gmx": "gmx"},
                {"class": "gromacs", "input_path": "p1", "gmx": "gmx_mpi"}]  # same input_path, other settings


EXPECT = ["verdict:rejected", "verdict:accepted", "init:picked", "reject:unsorted", "reject:duplicate", "reject:workers",
          "reject:moves", "reject:cap-outside", "reject:lm1", "reject:engine", "reject:too-few-interfaces", "init:wf-weights",
          "engines:undefined-name-rejected", "engines:mixed-classes-accepted", "engines:input-path-rule"]


def _path(orders, pn):
    p = Path()
    for i, o in enumerate(orders):
        s = System()
        s.order = [o]
        s.config = (f"/sim/load/{pn}/accepted/traj.xyz", i)
        p.phasepoints.append(s)
    p.path_number = pn
    p.generated = ("ld", 0.0, 0, 0)
    return p


def run_instance(ctx, sh):
    rngmodel.REG.ids.clear()
    X.PROP = "C18"
    k, moves = sh["k"], sh["moves"]
    lam = [ctx.real(f"lam{i}") for i in range(k)]
    w = ctx.int("workers", 1, 6)
    tis_set = {"maxlength": 100}
    cap = None
    if sh["cap"]:
        cap = ctx.real("cap")
        tis_set["interface_cap"] = cap
    lm1 = False
    if sh["lm1"]:
        lm1 = ctx.real("lamm1")
        tis_set["lambda_minus_one"] = lm1
    if sh["quantis"]:
        tis_set["quantis"] = True
    cfg = {
        "runner": {"workers": w},
        "simulation": {"interfaces": list(lam), "shooting_moves": list(moves), "seed": 0, "steps": 10, "load_dir": "load",
                       "tis_set": tis_set, "ensemble_engines": [["engine"] for _ in range(k)]},
        "output": {"screen": 0, "data_dir": "./", "data_file": "./infretis_data.txt", "delete_old": False},
    }
    if sh["engine"]:
        cfg["engine"] = {"class": "stub"}
    undefined_used = False
    if sh.get("elay"):
        cfg["simulation"]["ensemble_engines"] = [list(e) for e in sh["elay"]]
        used = []
        for e in sh["elay"]:
            for nme in e:
                if nme not in used:
                    used.append(nme)
        kinds = {}
        for nme in used:
            kd = ENGINE_KINDS[ctx.choice(len(ENGINE_KINDS), f"kind-of-{nme}")]
            kinds[nme] = kd
            if kd is None:
                undefined_used = True
            else:
                cfg[nme] = dict(kd)
    # ---- the property's list, as a predicate (each clause forks on the symbolic values)
    reasons = []
    if k < 2:
        reasons.append("too-few-interfaces")
    if any(not (a <= b) for a, b in zip(lam, lam[1:])):
        reasons.append("unsorted")
    elif any(a == b for a, b in zip(lam, lam[1:])):
        reasons.append("duplicate")
    if w > k - 1:
        reasons.append("workers")
    if len(moves) < k:
        reasons.append("moves")
    room = None
    if cap is not None and k >= 1:
        if cap < lam[0] or cap > lam[-1]:
            reasons.append("cap-outside")
        else:
            for e in range(1, min(len(moves), k)):
                if moves[e] == "wf" and cap <= lam[e - 1]:
                    room = e
            if room is not None:
                reasons.append("cap-no-room")
    if lm1 is not False and k >= 1 and not (lm1 < lam[0]):
        reasons.append("lm1")
    if not sh["engine"] and k >= 1:
        reasons.append("engine")
    if undefined_used:
        reasons.append("engine")
    # ---- the real verdict
    verdict = None
    try:
        isetup.check_config(copy.deepcopy(cfg) if False else cfg)
        verdict = "accepted"
    except isetup.TOMLConfigError as e:
        verdict = "rejected"
        msg = str(e)
    except core.Inconclusive:
        raise
    except Exception as e:
        core.reraise_if_proxy_limitation(e)
        verdict = "crashed:" + repr(e)
    ctx.cover("verdict:" + verdict.split(":")[0])
    if sh.get("elay"):
        if undefined_used and verdict == "rejected":
            ctx.cover("engines:undefined-name-rejected")
        if not undefined_used and verdict == "accepted" and len({kd["class"] for kd in kinds.values()}) > 1:
            ctx.cover("engines:mixed-classes-accepted")
        if not undefined_used and verdict == "rejected" and "input_path" in msg:
            ctx.cover("engines:input-path-rule")
    for r in reasons:
        if verdict == "rejected":
            ctx.cover("reject:" + r)
    if reasons:
        if verdict != "rejected":
            kk = None
            if verdict == "accepted":
                if reasons == ["cap-no-room"]:
                    kk = KNOWN_ROOM
                elif reasons == ["cap-outside"] and bool(cap == 0):
                    kk = KNOWN_ZERO
            ctx.check(False, "C18:invalid-configuration-rejected-with-a-configuration-error",
                      f"invalid because {reasons}; check_config: {verdict}", known_key=kk)
            if kk is None:
                return
        if verdict != "accepted":
            return
        return   # a (known) wrongly accepted configuration: do not also report its initialisation failure
    if verdict != "accepted":
        # rules beyond the property's list (e.g. quantis with lambda_-1) may reject: not an alarm
        ctx.check(verdict == "rejected", "C18:check_config-does-not-crash", verdict)
        return
    # ---- accepted => initialises
    wv = ctx.concretize(w)
    cfg["runner"]["workers"] = wv
    cfg["current"] = {"traj_num": k, "cstep": 0, "active": list(range(k)), "locked": [], "size": k, "frac": {}}
    cfg["simulation"]["tis_set"].setdefault("lambda_minus_one", False)
    cfg["simulation"]["tis_set"].setdefault("quantis", False)
    cfg["simulation"]["tis_set"].setdefault("accept_all", False)
    world = X.World()
    try:
        st = X.new_state(cfg, world)
        half = Q.__truediv__
        paths = [_path([lam[0] + 1, (lam[0] - 1) if lm1 is False else (lm1 + lam[0]) / 2, lam[0] + 1], 0)]
        tops = []
        for i in range(k - 1):
            hi = lam[i + 1]
            if cap is not None and moves[i + 1] == "wf" and cap < hi:
                hi = cap
            tops.append((lam[i] + hi) / 2)
            # a path that climbs through every lower region (no jump over a capped wire-fencing region => staircase row)
            paths.append(_path([lam[0] - 1] + tops[: i + 1] + [lam[0] - 1], i + 1))
        st.load_paths(paths)
        if "wf" in moves[1:k]:
            ctx.cover("init:wf-weights")
        inflight = []
        md0 = X.md0_of(st)
        guard = X.ChoiceGuard(ctx)
        rngmodel.GenModel.choice_hook = guard
        try:
            while st.initiate():
                inflight.append(st.prep_md_items(copy.deepcopy(md0)))
        finally:
            rngmodel.GenModel.choice_hook = None
        ctx.check(len(inflight) == wv, "C18:first-picks-issued-for-every-worker", f"{len(inflight)} vs {wv}")
        ctx.cover("init:picked")
        ens = [e for m in inflight for e in m["ens_nums"]]
        pns = [m["picked"][e]["traj"].path_number for m in inflight for e in m["ens_nums"]]
        ctx.check(len(set(ens)) == len(ens) and len(set(pns)) == len(pns) and
                  sorted(e + 1 for e in ens) == [i for i in range(st.n - 1) if st._locks[i] == 1],
                  "C18:first-picks-are-disjoint-and-marked-busy", f"{ens} {pns}")
    except core.Inconclusive:
        raise
    except (core._Abort, core._Stop, core._Skip):
        raise
    except AssertionError as e:
        ctx.fail("C18:accepted-configuration-initialises", X._tb(e))
    except Exception as e:
        core.reraise_if_proxy_limitation(e)
        ctx.fail("C18:accepted-configuration-initialises", X._tb(e))
