"""H11 -- C11: zero swaps exchange the crossing frames and are reversible; QuanTIS energy rule."""
from __future__ import annotations

import logging

import infretis.classes.path as ipath
import infretis.core.tis as tis
from infretis.classes.engines.enginebase import EngineBase
from infretis.classes.path import Path
from oracles import ensemble as E
from symx import core, npfacade
from symx.stubs import Energies, Line, LineEngine, SymRng, orders_of, tags_of

logging.disable(logging.CRITICAL)

PROPERTIES = ["C11", "C09", "C07"]
EXPLANATION = ("H11: run_md -> select_shoot -> retis_swap_zero / quantis_swap_zero (+ high_acc_swap, compute_weight, "
               "paste_paths, calc_cv_vector) executed with deterministic time-reversible line engines: each old path lies on a "
               "symbolic bi-infinite order sequence, propagation walks along it through the REAL add_to_path; order values, "
               "interfaces, the integer length limit, energies per (level of theory, configuration), both betas and the draw "
               "are symbolic. exp() is a fresh positive variable and its argument is compared as a polynomial identity.")
ASSUMPTIONS = [
    "old [0-] and [0+] paths valid in their ensembles (incl. non-zero own weight for a wire-fencing [0+]); no old-path frame lies exactly on lambda_0 (equality convention clash, see DESIGN)",
    "both ensembles share one tis_set (same maxlength), as initiate_ensembles builds them",
    "engines obey the C12 contract and are deterministic and time-reversible (LineEngine)",
    "rgen.random() in (0,1); exp modelled as an arbitrary positive value (sound over-approximation; monotonicity not needed)",
]


def install():
    npfacade.install(ipath)
    npfacade.install(tis, int=npfacade.symint, max=npfacade.symmax, min=npfacade.symmin)
    tis.log_mdlogs = lambda d: None


def uninstall():
    npfacade.uninstall(ipath)
    npfacade.uninstall(tis)
    tis.log_mdlogs = lambda d: None


def functions():
    return [tis.retis_swap_zero, tis.quantis_swap_zero, tis.high_acc_swap, tis.compute_weight, tis.select_shoot, tis.run_md,
            ipath.paste_paths, Path.reverse, EngineBase.add_to_path]


def bounds(tier, prop):
    return {"old path frames": f"3..4 each, sum <= {7 if tier == 'quick' else 8}",
            "length limit": "symbolic integer in [3, 5]" + ("" if tier == "quick" else " ([3, 6] for sums <= 7)"),
            "new frames per propagation": "up to the limit (never binding)", "outside": "longer paths / limits"}


def instances(tier, prop):
    out = _instances(tier, prop)
    if prop == "C07":
        # only the hand-over of the job's engine streams (select_shoot) is of interest: the smallest instances suffice
        out = [s for s in out if s["L0"] + s["L1"] <= 6 and s.get("moves", ["sh", "sh"]) == ["sh", "sh"] and s.get("var", "plain") == "plain"]
    if prop == "C09":
        # C09 speaks about zero-swap moves too (accept <=> ACC, membership, rejection changes nothing): a subset suffices
        out = [s for s in out if s["L0"] + s["L1"] <= 6 or s["kind"] == "quantis"]
    for s in out:
        s["prop"] = prop
    return out


def _instances(tier, prop):
    out = []
    quick = tier == "quick"
    n = 4
    for L0 in range(3, n + 1):
        for L1 in range(3, n + 1):
            if L0 + L1 > (7 if quick else 8):
                continue
            big = L0 + L1 >= 8
            for ens0 in ("minus", "minus_lm1"):
                for moves in (("sh", "sh"), ("sh", "wf")):
                    heavy = ens0 == "minus_lm1" and moves[1] == "wf"
                    if heavy and L0 + L1 > (6 if quick else 7):
                        continue
                    Mmax = 4 if (quick and heavy) else (5 if (quick or big or heavy) else 6)
                    out.append({"kind": "retis", "L0": L0, "L1": L1, "ens0": ens0, "moves": list(moves), "Mmax": Mmax,
                                "_cost": 9 ** (L0 + L1) * (20 if heavy else 1) * (3 if moves[1] == "wf" else 1) * 4 ** (Mmax - 4),
                                "_splitbits": ((5 if heavy else 3) if quick else 7) if (L0 + L1 >= 7 or moves[1] == "wf" or ens0 == "minus_lm1") else (0 if quick else 4)})
            for var in ("plain", "accept_all", "noenergy"):
                out.append({"kind": "quantis", "L0": L0, "L1": L1, "var": var, "Mmax": 5 if (quick or big) else 6,
                            "_cost": 9 ** (L0 + L1), "_splitbits": 3 if L0 + L1 >= 7 else 0})
    return out


EXPECT = ["retis:ACC", "retis:BTX", "retis:FTX", "retis:0-L", "retis:restored", "retis:HAS", "retis:FTS",
          "quantis:ACC", "quantis:QEA", "quantis:QNE", "quantis:BTX", "quantis:FTX", "quantis:e<1", "quantis:e>=1"]


P = "C11"


def expect(tier, prop):
    if prop == "C07":
        return ["retis:ACC", "quantis:ACC"]
    return EXPECT


def run_instance(ctx, shape):
    global P
    P = shape.get("prop", "C11")
    return (_retis if shape["kind"] == "retis" else _quantis)(ctx, shape)


def _setup(ctx, sh, energies=None):
    import z3
    L0, L1 = sh["L0"], sh["L1"]
    lam0, lamN = ctx.real("lam0"), ctx.real("lamN")
    ctx.assume(ctx.rel(lam0, "<", lamN))
    A, B = Line(ctx, "A"), Line(ctx, "B")
    if sh.get("ens0") == "minus_lm1":
        lm1 = ctx.real("lamm1")
        ctx.assume(ctx.rel(lm1, "<", lam0))
        intf0, sc0, start0 = (lm1, (lm1 + lam0) / 2, lam0), ["L", "R"], {"L", "R"}
    else:
        lm1 = False
        intf0, sc0, start0 = (float("-inf"), lam0, lam0), "R", {"R"}
    intf1 = (lam0, lam0, lamN)
    old0 = Path()
    for t in range(L0):
        old0.phasepoints.append(A.frame(t, level=0, energies=energies))
    old1 = Path()
    for t in range(L1):
        old1.phasepoints.append(B.frame(t, level=1, energies=energies))
    q0 = orders_of(old0)
    q1 = orders_of(old1)
    # old [0-] valid
    first = [ctx.rel(q0[0], ">", lam0)]
    last = [ctx.rel(q0[-1], ">", lam0)]
    if lm1 is not False:
        first.append(ctx.rel(q0[0], "<", lm1))
        last.append(ctx.rel(q0[-1], "<", lm1))
    ctx.assume(z3.Or(first))
    ctx.assume(z3.Or(last))
    for o in q0[1:-1]:
        ctx.assume(ctx.rel(o, "<", lam0))
        if lm1 is not False:
            ctx.assume(ctx.rel(o, ">=", lm1))
    # old [0+] valid
    ctx.assume(ctx.rel(q1[0], "<", lam0))
    ctx.assume(z3.Or(ctx.rel(q1[-1], "<", lam0), ctx.rel(q1[-1], ">", lamN)))
    for o in q1[1:-1]:
        ctx.assume(ctx.rel(o, ">", lam0))
        ctx.assume(ctx.rel(o, "<=", lamN))
    if sh.get("moves", ["sh", "sh"])[1] == "wf":
        # a live [0+] path of a wire-fencing ensemble has non-zero weight there (scheduler invariant, add_traj asserts it)
        from oracles import wf as OW
        ctx.assume(OW.ha_weight(q1, lam0, lam0, lamN, "wf") != 0)
    M = ctx.int("maxlength", 3, sh["Mmax"])
    for p, n in ((old0, 3), (old1, 5)):
        p.maxlen = M
        p.path_number = n
        p.generated = ("sh", 0.0, 0, 0)
    return lam0, lamN, lm1, intf0, sc0, start0, intf1, old0, old1, M, A, B


def _snap(path):
    return [(pp, pp.order, pp.order[0], pp.config, pp.vel_rev) for pp in path.phasepoints]


def _same(path, snap):
    return len(path.phasepoints) == len(snap) and all(
        pp is s[0] and pp.order is s[1] and pp.order[0] is s[2] and pp.config == s[3] and pp.vel_rev == s[4]
        for pp, s in zip(path.phasepoints, snap))


def _run(ctx, ens0, ens1, p0, p1, eng0, eng1, full, moves, cap):
    picked = {-1: {"ens": ens0, "traj": p0, "pn_old": p0.path_number, "eng_idx": {"e0": 0}, "exe_dir": ".",
                   "rgen-eng": "S0"},
              0: {"ens": ens1, "traj": p1, "pn_old": p1.path_number, "eng_idx": {"e1": 0}, "exe_dir": ".",
                  "rgen-eng": "S1"}}
    md = {"picked": picked, "mc_moves": moves, "interfaces": full, "cap": cap, "moves": [], "trial_len": [],
          "trial_op": [], "generated": []}
    saved = tis.ENGINES
    tis.ENGINES = {"e0": [eng0], "e1": [eng1]}
    rec = {}
    real = {n: getattr(tis, n) for n in ("retis_swap_zero", "quantis_swap_zero")}

    def mk(n, f):
        def w(*a, **k):
            r = f(*a, **k)
            rec["call"] = (n, r[0], r[2], [p.status for p in r[1]])
            return r
        return w
    for n, f in real.items():
        setattr(tis, n, mk(n, f))
    try:
        md = tis.run_md(md)
    finally:
        tis.ENGINES = saved
        for n, f in real.items():
            setattr(tis, n, f)
    return md, rec.get("call")


def _retis(ctx, sh):
    lam0, lamN, lm1, intf0, sc0, start0, intf1, old0, old1, M, A, B = _setup(ctx, sh)
    moves = sh["moves"]
    rng0, rng1 = SymRng(ctx, "rng0"), SymRng(ctx, "rng1")
    tis_set = {"maxlength": M, "lambda_minus_one": lm1, "quantis": False, "allowmaxlength": False}
    ens0 = {"interfaces": intf0, "tis_set": tis_set, "mc_move": moves[0], "ens_name": "000", "start_cond": sc0, "rgen": rng0}
    ens1 = {"interfaces": intf1, "tis_set": tis_set, "mc_move": moves[1], "ens_name": "001", "start_cond": "L", "rgen": rng1}
    eng0 = LineEngine(ctx, "e0", budget=sh["Mmax"])
    eng1 = LineEngine(ctx, "e1", budget=sh["Mmax"])
    full, mv = [lam0, lamN], ["sh", moves[1]]
    s0, s1 = _snap(old0), _snap(old1)
    t0, t1 = tags_of(old0), tags_of(old1)
    try:
        md, call = _run(ctx, ens0, ens1, old0, old1, eng0, eng1, full, mv, None)
    except Exception as e:
        core.reraise_if_proxy_limitation(e)
        ctx.fail(f"{P}:zero-swap-no-exception", repr(e))
        return
    status = md["status"]
    _, accept, st2, pstat = call
    ctx.cover("retis:" + status)
    ctx.check(eng0.rgen == "S0" and eng1.rgen == "S1", "C07:zero-swap-engines-get-their-own-job-streams",
              f"[0-] engine has {eng0.rgen!r}, [0+] engine has {eng1.rgen!r}")
    ctx.check(accept == (status == "ACC") and st2 == status, f"{P}:zero-swap-accept-iff-status-ACC", f"{accept} {status}")
    ctx.check(_same(old0, s0) and _same(old1, s1), f"{P}:zero-swap-old-paths-untouched")
    n0, n1 = md["picked"][-1]["traj"], md["picked"][0]["traj"]
    ended_left = lm1 is not False and (orders_of(old0)[-1] <= lm1)
    if ended_left:
        ctx.check(status == "0-L" and not accept and eng0.propagations + eng1.propagations == 0,
                  "C11:[0-]-path-ending-left-rejected-without-propagation", f"{status} props {eng0.propagations}+{eng1.propagations}")
    if status != "ACC":
        ctx.check(n0 is old0 and n1 is old1, f"{P}:zero-swap-rejection-keeps-old-paths")
        return
    L0, L1 = sh["L0"], sh["L1"]
    tg0, tg1 = tags_of(n0), tags_of(n1)
    ctx.check(tg0[-2:] == [("B", 0), ("B", 1)], "C11:new-[0-]-ends-with-first-two-frames-of-old-[0+]", lambda: f"{tg0}")
    ctx.check(tg1[:2] == [("A", L0 - 2), ("A", L0 - 1)], "C11:new-[0+]-starts-with-last-two-frames-of-old-[0-]", lambda: f"{tg1}")
    ctx.check(n0.phasepoints[-1].order[0] == old1.phasepoints[1].order[0] and n0.phasepoints[-2].order[0] == old1.phasepoints[0].order[0]
              and n1.phasepoints[0].order[0] == old0.phasepoints[-2].order[0] and n1.phasepoints[1].order[0] == old0.phasepoints[-1].order[0],
              "C11:exchanged-frames-carry-the-same-order-values")
    ctx.check(tg0 == [("B", t) for t in range(2 - len(tg0), 2)] and tg1 == [("A", t) for t in range(L0 - 2, L0 - 2 + len(tg1))],
              "C11:new-paths-time-ordered", lambda: f"{tg0} {tg1}")
    ok0, why0 = E.valid(orders_of(n0), intf0[0], intf0[1], intf0[2], start0, maxlength=M)
    ok1, why1 = E.valid(orders_of(n1), intf1[0], intf1[1], intf1[2], {"L"}, maxlength=M)
    ctx.check(ok0, f"{P}:zero-swap-new-[0-]-valid-in-ensemble", lambda: f"{why0} {tg0}")
    ctx.check(ok1, f"{P}:zero-swap-new-[0+]-valid-in-ensemble", lambda: f"{why1} {tg1}")
    ctx.check(n0.weights is not None and n0.weights[0] != 0 and n1.weights is not None and n1.weights[0] != 0,
              f"{P}:zero-swap-nonzero-own-weights", lambda: f"{n0.weights} {n1.weights}")
    # swap twice restores (deterministic time-reversible dynamics)
    if moves[1] == "wf":
        return
    for p, n in ((n0, 13), (n1, 15)):
        p.path_number = n
        p.maxlen = M
    try:
        md2, call2 = _run(ctx, ens0, ens1, n0, n1, eng0, eng1, full, mv, None)
    except Exception as e:
        core.reraise_if_proxy_limitation(e)
        ctx.fail(f"{P}:zero-swap-no-exception", repr(e))
        return
    if (L0 < M) and (L1 < M):
        ctx.check(md2["status"] == "ACC", "C11:second-swap-accepted-when-originals-fit", md2["status"])
    if md2["status"] == "ACC":
        r0, r1 = md2["picked"][-1]["traj"], md2["picked"][0]["traj"]
        ctx.check(tags_of(r0) == t0 and tags_of(r1) == t1 and
                  all(x == y for x, y in zip(orders_of(r0), orders_of(old0))) and
                  all(x == y for x, y in zip(orders_of(r1), orders_of(old1))),
                  "C11:swapping-twice-restores-order-sequences", lambda: f"{tags_of(r0)} {tags_of(r1)}")
        ctx.cover("retis:restored")


def _quantis(ctx, sh):
    var = sh["var"]
    en = Energies(ctx)
    lam0, lamN, lm1, intf0, sc0, start0, intf1, old0, old1, M, A, B = _setup(ctx, dict(sh, ens0="minus"), energies=en)
    if var == "noenergy":
        for pp in old0.phasepoints:
            pp.vpot = None
    rng0, rng1 = SymRng(ctx, "rng0"), SymRng(ctx, "rng1")
    tis_set = {"maxlength": M, "lambda_minus_one": False, "quantis": True, "accept_all": var == "accept_all",
               "allowmaxlength": False}
    ens0 = {"interfaces": intf0, "tis_set": tis_set, "mc_move": "sh", "ens_name": "000", "start_cond": "R", "rgen": rng0}
    ens1 = {"interfaces": intf1, "tis_set": tis_set, "mc_move": "sh", "ens_name": "001", "start_cond": "L", "rgen": rng1}
    b0, b1 = ctx.real("beta0", positive=True), ctx.real("beta1", positive=True)
    eng0 = LineEngine(ctx, 0, budget=sh["Mmax"], energies=en, beta=b0)
    eng1 = LineEngine(ctx, 1, budget=sh["Mmax"], energies=en, beta=b1)
    s0, s1 = _snap(old0), _snap(old1)
    L0, L1 = sh["L0"], sh["L1"]
    try:
        md, call = _run(ctx, ens0, ens1, old0, old1, eng0, eng1, [lam0, lamN], ["sh", "sh"], None)
    except Exception as e:
        core.reraise_if_proxy_limitation(e)
        ctx.fail(f"{P}:zero-swap-no-exception", repr(e))
        return
    status = md["status"]
    _, accept, st2, pstat = call
    ctx.cover("quantis:" + status)
    ctx.check(eng0.rgen == "S0" and eng1.rgen == "S1", "C07:zero-swap-engines-get-their-own-job-streams",
              f"[0-] engine has {eng0.rgen!r}, [0+] engine has {eng1.rgen!r}")
    ctx.check(accept == (status == "ACC") and st2 == status, f"{P}:zero-swap-accept-iff-status-ACC", f"{accept} {status}")
    ctx.check(_same(old0, s0) and _same(old1, s1), f"{P}:zero-swap-old-paths-untouched")
    if var == "noenergy":
        ctx.check(status == "QNE" and eng0.propagations + eng1.propagations == 0, "C11:quantis-no-energies-rejected", status)
        return
    ctx.check(status not in ("QNE", "QLL", "QS0", "QS1", "QR*", "QLR"), "C11:quantis-precondition-statuses-unreachable-for-valid-paths",
              status)
    # the energy rule
    args = getattr(ctx, "exp_args", {})
    draws = [d for d in rng0.draws if d[0] == "random"]
    ctx.check(len(draws) == 1 and not rng1.draws, "C11:quantis-one-draw-from-the-[0-]-stream", f"{len(draws)} {len(rng1.draws)}")
    u = draws[0][1]
    V = en.v
    expect_arg = b0 * (V(0, "A", L0 - 2) - V(0, "B", 0)) - b1 * (V(1, "A", L0 - 2) - V(1, "B", 0))
    ctx.check(len(args) == 1, "C11:quantis-exp-called-once", f"{len(args)}")
    if ctx.symbolic:
        (evar, earg), = args.items()
        from symx.core import Q, Poly
        e = Q(Poly.var(evar))
    else:
        (earg, e), = args.values()
    if ctx.symbolic or ctx.mode == "exact":
        ctx.check(earg == expect_arg, "C11:quantis-exponent==beta0*dV0-beta1*dV1")
    else:
        ctx.check(abs(earg - expect_arg) <= 1e-9 * (1 + abs(expect_arg)), "C11:quantis-exponent==beta0*dV0-beta1*dV1")
    pacc = e if e < 1 else 1
    ctx.cover("quantis:e<1" if e < 1 else "quantis:e>=1")
    passes = (u <= pacc) or var == "accept_all"
    ctx.check((status != "QEA") == passes, "C11:quantis-accepts-energy-test-iff-u<=min(1,exp(.))",
              lambda: f"status {status} passes {passes}")
    if status != "ACC":
        return
    n0, n1 = md["picked"][-1]["traj"], md["picked"][0]["traj"]
    tg0, tg1 = tags_of(n0), tags_of(n1)
    ctx.check(tg0[-2:] == [("B", 0), ("B", 1)], "C11:new-[0-]-ends-with-first-two-frames-of-old-[0+]", lambda: f"{tg0}")
    ctx.check(tg1[:2] == [("A", L0 - 2), ("A", L0 - 1)], "C11:new-[0+]-starts-with-last-two-frames-of-old-[0-]", lambda: f"{tg1}")
    ctx.check(tg0 == [("B", t) for t in range(2 - len(tg0), 2)] and tg1 == [("A", t) for t in range(L0 - 2, L0 - 2 + len(tg1))],
              "C11:new-paths-time-ordered", lambda: f"{tg0} {tg1}")
    ok0, why0 = E.valid(orders_of(n0), intf0[0], intf0[1], intf0[2], start0, maxlength=M)
    ok1, why1 = E.valid(orders_of(n1), intf1[0], intf1[1], intf1[2], {"L"}, maxlength=M)
    ctx.check(ok0, f"{P}:zero-swap-new-[0-]-valid-in-ensemble", lambda: f"{why0} {tg0}")
    ctx.check(ok1, f"{P}:zero-swap-new-[0+]-valid-in-ensemble", lambda: f"{why1} {tg1}")
