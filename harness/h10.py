"""H10 -- C10: wire-fencing weights are exact, symmetric and drive segment choice."""
from __future__ import annotations

import itertools

import infretis.classes.path as ipath
import infretis.core.tis as tis
from oracles import wf as O
from symx import core, npfacade
from symx.stubs import SymRng, fdiv, mk_path, tags_of

PROPERTIES = ["C10"]
EXPLANATION = ("H10: wirefence_weight_and_pick / compute_weight / calc_cv_vector / high_acc_swap executed on paths whose "
               "order parameters, interfaces, cap and random draws are symbolic reals; every zone assignment of every "
               "frame (including values equal to an interface and jumps over the region) is a separate solver-decided "
               "path; results compared with an independent zone/run oracle (oracles/wf.py).")
ASSUMPTIONS = [
    "floats are modelled as the reals they denote (the code only compares order parameters; the two float divisions "
    "cum/N and c1n*c2n/(c1o*c2o) are modelled as the correctly rounded double of the exact quotient)",
    "compute_weight / calc_cv_vector: first and last frame lie outside (lambda_0, cap) as for every complete path",
    "calc_cv_vector: interfaces strictly increasing; cap (if given) in (lambda_0, lambda_last] and above every wf interface",
    "rgen.random() returns a value in the open interval (0,1)",
]


def install():
    npfacade.install(ipath)
    npfacade.install(tis, max=npfacade.symmax, min=npfacade.symmin)


def uninstall():
    npfacade.uninstall(ipath)
    npfacade.uninstall(tis)


def functions():
    return [tis.wirefence_weight_and_pick, tis.compute_weight, tis.calc_cv_vector, tis.high_acc_swap,
            ipath.Path.get_start_point, ipath.Path.get_end_point, ipath.Path.reverse]


def bounds(tier, prop):
    L = 7 if tier == "quick" else 9
    return {"frames_per_path<=": L, "interfaces<=": 4, "high_acc_swap sum of the two path lengths<=": 5 if tier == "quick" else 6,
            "outside": "longer paths; more than 4 interfaces; non-finite order parameters"}


def instances(tier, prop):
    out = []
    Lmax = 7 if tier == "quick" else 9
    for L in range(1, Lmax + 1):
        out.append({"kind": "pick", "L": L, "_cost": 3 ** L})
    for L in range(2, (6 if tier == "quick" else 7) + 1):
        for move in ("wf", "sh"):
            out.append({"kind": "cw", "L": L, "move": move, "_cost": 3 ** L})
    for k in (2, 3, 4):
        for moves in itertools.product(("sh", "wf"), repeat=k):
            for cap in (False, True):
                if cap and "wf" not in moves[1:]:
                    continue
                for L in ((3, 4) if tier == "quick" else (3, 4, 5)):
                    out.append({"kind": "cv", "k": k, "moves": list(moves), "cap": cap, "L": L, "_cost": (k + 1) ** L})
    for minus_lm1 in (False, True):
        out.append({"kind": "cvminus", "lm1": minus_lm1, "L": 3, "_cost": 10})
    Lsum = 5 if tier == "quick" else 6
    for L1 in range(2, 5):
        for L2 in range(2, 5):
            if L1 + L2 > Lsum:
                continue
            for moves in (("wf", "wf"), ("sh", "wf"), ("wf", "sh")):
                out.append({"kind": "has", "L1": L1, "L2": L2, "moves": list(moves), "_cost": 9 ** (L1 + L2)})
    return out


EXPECT = ["pick:weight>0", "pick:weight=0", "pick:multi-run", "pick:RR-excluded", "pick:jump", "cw:doubled",
          "cw:single", "cv:wf-hole", "has:ACC", "has:HAS", "has:zero-denominator"]


def run_instance(ctx, shape):
    kind = shape["kind"]
    if kind == "pick":
        return _pick(ctx, shape["L"])
    if kind == "cw":
        return _cw(ctx, shape["L"], shape["move"])
    if kind == "cv":
        return _cv(ctx, shape)
    if kind == "cvminus":
        return _cvminus(ctx, shape)
    if kind == "has":
        return _has(ctx, shape)
    raise ValueError(kind)


def _orders(ctx, L, prefix="o"):
    return [ctx.real(f"{prefix}{i}") for i in range(L)]


def _pick(ctx, L):
    left = ctx.real("left")
    right = ctx.real("right")
    ctx.assume(ctx.rel(left, "<", right))
    orders = _orders(ctx, L)
    path = mk_path(orders)
    rng = SymRng(ctx)
    try:
        w, seg = tis.wirefence_weight_and_pick(path, left, right, return_seg=True, ens_set={"rgen": rng})
        w2, seg2 = tis.wirefence_weight_and_pick(path, left, right)
        rpath = path.reverse(None)
        wr, _ = tis.wirefence_weight_and_pick(rpath, left, right)
    except Exception as e:  # the readers of this property never expect an exception
        ctx.fail("C10:no-exception", repr(e))
        return
    runs = O.runs(orders, left, right)
    ow = sum(j - i + 1 for i, j, _, _ in runs)
    z = O.zones(orders, left, right)
    ctx.check(w == ow, "C10:weight==oracle", lambda: f"code {w} oracle {ow} zones {''.join(z)}")
    ctx.check(w2 == ow and seg2.length == 0, "C10:weight-without-segment", f"{w2} vs {ow}")
    ctx.check(wr == w, "C10:reversal-symmetry", lambda: f"forward {w} reversed {wr} zones {''.join(z)}")
    ctx.check((w > 0) == (len(runs) > 0), "C10:positive-iff-frame-exists")
    if ow == 0:
        ctx.cover("pick:weight=0")
        ctx.check(seg.length == 0, "C10:no-segment-when-weight-0")
        if any(z[i] == "M" and i > 0 and i < L - 1 for i in range(L)) and "M" in z:
            # there are interior M frames but none counts: must be an R..R excursion or an open-ended run
            if any(a == "R" and b == "M" for a, b in zip(z, z[1:])):
                ctx.cover("pick:RR-excluded")
    else:
        ctx.cover("pick:weight>0")
        if len(runs) > 1:
            ctx.cover("pick:multi-run")
        if any((a, b) in (("L", "R"), ("R", "L")) for a, b in zip(z, z[1:])):
            ctx.cover("pick:jump")
        stags = tags_of(seg)
        found = None
        for ridx, (i, j, _, _) in enumerate(runs):
            if stags == [("o", t) for t in range(i - 1, j + 2)]:
                found = ridx
        ctx.check(found is not None, "C10:segment-is-one-run-plus-bounding-frames",
                  lambda: f"segment {stags} runs {runs}")
        if found is not None:
            u = rng.draws[0][1]
            cum_prev = sum(j - i + 1 for i, j, _, _ in runs[:found])
            cum = cum_prev + (runs[found][1] - runs[found][0] + 1)
            lo_ok = True if found == 0 else (u > fdiv(cum_prev, ow))
            hi_ok = u <= fdiv(cum, ow)
            ctx.check(lo_ok and hi_ok, "C10:segment-drawn-proportionally",
                      lambda: f"run {found} of {runs} for draw outside ({cum_prev}/{ow}, {cum}/{ow}]")
            ctx.check(seg.generated == "ct" and seg.maxlen == path.maxlen, "C10:segment-metadata")


def _outside(ctx, o, lo, hi):
    import z3
    return z3.Or(ctx.rel(o, "<=", lo), ctx.rel(o, ">=", hi))


def _cw(ctx, L, move):
    lam0 = ctx.real("lam0")
    lami = ctx.real("lami")
    cap = ctx.real("cap")
    ctx.assume(ctx.rel(lam0, "<=", lami))
    ctx.assume(ctx.rel(lami, "<", cap))
    orders = _orders(ctx, L)
    ctx.assume(_outside(ctx, orders[0], lam0, cap))
    ctx.assume(_outside(ctx, orders[-1], lam0, cap))
    path = mk_path(orders)
    try:
        w = tis.compute_weight(path, [lam0, lami, cap], move)
        wr = tis.compute_weight(path.reverse(None), [lam0, lami, cap], move)
    except Exception as e:
        core.reraise_if_proxy_limitation(e)
        ctx.fail("C10:no-exception", repr(e))
        return
    ow = O.ha_weight(orders, lam0, lami, cap, move)
    ctx.check(w == ow, "C10:ha-weight==oracle", lambda: f"code {w} oracle {ow}")
    ctx.check(wr == w, "C10:ha-weight-reversal-symmetry", lambda: f"{w} vs reversed {wr}")
    if move == "wf" and ow > 0:
        if O.side(orders[0], lam0, cap) != O.side(orders[-1], lam0, cap):
            ctx.cover("cw:doubled")
        else:
            ctx.cover("cw:single")


def _cv(ctx, shape):
    import z3
    k, moves, L = shape["k"], shape["moves"], shape["L"]
    lam = [ctx.real(f"lam{i}") for i in range(k)]
    for a, b in zip(lam, lam[1:]):
        ctx.assume(ctx.rel(a, "<", b))
    cap = None
    if shape["cap"]:
        cap = ctx.real("cap")
        ctx.assume(ctx.rel(lam[0], "<", cap))
        ctx.assume(ctx.rel(cap, "<=", lam[-1]))
        for idx in range(k - 1):
            if moves[idx + 1] == "wf":
                ctx.assume(ctx.rel(lam[idx], "<", cap))
    orders = _orders(ctx, L)
    if "wf" in moves[1:]:
        hi = cap if cap is not None else lam[-1]
        ctx.assume(_outside(ctx, orders[0], lam[0], hi))
        ctx.assume(_outside(ctx, orders[-1], lam[0], hi))
    path = mk_path(orders)
    try:
        cv = tis.calc_cv_vector(path, lam, moves, lambda_minus_one=False, cap=cap, minus=False)
    except Exception as e:
        core.reraise_if_proxy_limitation(e)
        ctx.fail("C10:no-exception", repr(e))
        return
    ocv = O.cv_vector(orders, lam, moves, False, cap, False)
    ok = len(cv) == len(ocv) and all(a == b for a, b in zip(cv, ocv))
    ctx.check(ok, "C10:weight-vector==oracle", lambda: f"code {cv} oracle {ocv} moves {moves}")
    ctx.check(len(cv) == k and cv[-1] == 0, "C10:last-entry-zero")
    nz = [c != 0 for c in cv[:-1]]
    if True in nz and False in nz[: max(i for i, x in enumerate(nz) if x)]:
        ctx.cover("cv:wf-hole")


def _cvminus(ctx, shape):
    lam = [ctx.real("lam0"), ctx.real("lam1")]
    ctx.assume(ctx.rel(lam[0], "<", lam[1]))
    lm1 = False
    if shape["lm1"]:
        lm1 = ctx.real("lm1")
        ctx.assume(ctx.rel(lm1, "<", lam[0]))
    orders = _orders(ctx, shape["L"])
    path = mk_path(orders)
    cv = tis.calc_cv_vector(path, lam, ["sh", "sh"], lambda_minus_one=lm1, cap=None, minus=True)
    ocv = O.cv_vector(orders, lam, ["sh", "sh"], lm1, None, True)
    ctx.check(len(cv) == 1 and cv[0] == ocv[0], "C10:minus-weight-vector", lambda: f"{cv} vs {ocv}")


def _has(ctx, shape):
    L1, L2, moves = shape["L1"], shape["L2"], shape["moves"]
    # lower ensemble [lam0-ish, i0, cap0], upper ensemble [lam0, i1, cap1]
    a0, b0, c0 = ctx.real("a0"), ctx.real("b0"), ctx.real("c0")
    a1, b1, c1 = ctx.real("a1"), ctx.real("b1"), ctx.real("c1")
    for a, b, c in ((a0, b0, c0), (a1, b1, c1)):
        ctx.assume(ctx.rel(a, "<=", b))
        ctx.assume(ctx.rel(b, "<", c))
    o1 = _orders(ctx, L1, "p")
    o2 = _orders(ctx, L2, "q")
    for o in (o1, o2):
        for a, c in ((a0, c0), (a1, c1)):
            ctx.assume(_outside(ctx, o[0], a, c))
            ctx.assume(_outside(ctx, o[-1], a, c))
    p1, p2 = mk_path(o1, tagprefix="p"), mk_path(o2, tagprefix="q")
    rng = SymRng(ctx)
    try:
        acc, status = tis.high_acc_swap([p1, p2], rng, [a0, b0, c0], [a1, b1, c1], moves)
    except Exception as e:
        core.reraise_if_proxy_limitation(e)
        ctx.fail("C10:no-exception", repr(e))
        return
    c1o = O.ha_weight(o1, a0, b0, c0, moves[0])
    c2o = O.ha_weight(o2, a1, b1, c1, moves[1])
    c1n = O.ha_weight(o2, a0, b0, c0, moves[0])
    c2n = O.ha_weight(o1, a1, b1, c1, moves[1])
    u = rng.draws[0][1]
    ctx.check(status == ("ACC" if acc else "HAS"), "C10:has-status")
    if c1o == 0 or c2o == 0:
        ctx.cover("has:zero-denominator")
        ctx.check(acc is True, "C10:has-accepts-when-denominator-zero")
    else:
        ratio = fdiv(c1n * c2n, c1o * c2o)
        ctx.check(acc == (u < ratio), "C10:has-accept-iff-u<ratio",
                  lambda: f"acc={acc} weights new {c1n}*{c2n} old {c1o}*{c2o}")
    ctx.cover("has:ACC" if acc else "has:HAS")
