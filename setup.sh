#!/bin/sh
# Build the analysis environment offline: an overlay venv on top of /venv (the repo's own
# interpreter and packages) plus z3-solver / cvc5 / jsonschema from the local wheelhouse.
set -e
cd "$(dirname "$0")"
if [ ! -x .venv/bin/python ] || ! .venv/bin/python -c "import z3, numpy" >/dev/null 2>&1; then
  rm -rf .venv
  /venv/bin/python -m venv .venv
  echo "import site; site.addsitedir('/venv/lib/python3.12/site-packages')" > .venv/lib/python3.12/site-packages/overlay.pth
  PIP_NO_INDEX=1 .venv/bin/pip install -q --no-index --find-links /opt/veriftools/wheels z3-solver cvc5 jsonschema >/dev/null 2>&1 || \
  PIP_NO_INDEX=1 .venv/bin/pip install -q --no-index --find-links /opt/veriftools/wheels z3-solver
fi
.venv/bin/python -c "import z3, numpy; print('symx env ok: z3', z3.get_version_string(), 'numpy', numpy.__version__)"
