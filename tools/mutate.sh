#!/bin/sh
# tools/mutate.sh <PROP> <file-relative-to-/repo> <python-regex-old> <new> [extra check args]
# applies a one-off textual mutation to /repo, runs the check, reverts. For development only.
PROP=$1; FILE=$2; OLD=$3; NEW=$4; shift 4
cd /repo || exit 9
python3 - "$FILE" "$OLD" "$NEW" <<'PY'
import sys
f,old,new=sys.argv[1:4]
s=open(f).read()
if s.count(old)<1: print("MUTATION TARGET NOT FOUND"); sys.exit(7)
s=s.replace(old,new,1); open(f,'w').write(s)
PY
[ $? -eq 0 ] || { git checkout -- . ; exit 7; }
git diff --stat | tail -1
cd /verif && ./check $PROP --no-evidence "$@" 2>&1 | grep -E "VIOLATION|held on|INCONCLUSIVE|PROBLEM|MISSING|KNOWN" | cut -c1-300 | head -6
cd /repo && git checkout -- .
