#!/bin/sh
# tools/seed_eval.sh <seed-dir> <PROP> [more props...]
# 1. confirms the seeded change in a scratch worktree (applies, test suite still 76 passed, demo fails with / passes without)
# 2. applies it to /repo, runs the given checks (quick), undoes it straight afterwards.
SEED=$1; shift
WT=/tmp/seedcheck_$$
cd /repo || exit 9
[ -z "$(git status --porcelain --untracked-files=no)" ] || { echo "/repo not clean"; exit 9; }
git worktree add -q $WT HEAD || exit 9
cd $WT
/venv/bin/python $SEED/demo.py $WT >/dev/null 2>&1; echo "demo without patch: exit $?"
git apply $SEED/patch.diff || { echo "PATCH DOES NOT APPLY"; cd /repo; git worktree remove --force $WT; exit 8; }
/venv/bin/python $SEED/demo.py $WT > $WT/.demo_out 2>&1; echo "demo with patch: exit $? ($(tail -1 $WT/.demo_out | cut -c1-150))"
if [ -z "$SKIP_TESTS" ]; then
  /venv/bin/python -m pytest -q -p no:cacheprovider --timeout=900 2>&1 | tail -1
fi
cd /repo; git worktree remove --force $WT
git -C /repo apply $SEED/patch.diff
for P in "$@"; do
  cd /verif && timeout ${SEED_TIMEOUT:-900} ./check $P --no-evidence 2>&1 | grep -E "VIOLATION|label=|held on|INCONCLUSIVE|PROBLEM|MISSING|KNOWN" | cut -c1-260 | head -5
done
git -C /repo checkout -- .
git -C /repo status --porcelain --untracked-files=no
