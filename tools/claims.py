"""What each registered check claims (MANIFEST text). Keep in step with DESIGN.md."""
TECH = "bounded symbolic execution of the real functions (exact rational proxies), z3-decided per path"
CLAIMS = {
    "C10": {
        "level": "other",
        "text": "For every path of <= 7 frames (9 thorough) and every real-valued order-parameter sequence, interface pair/triple, cap "
                "and draw, the solver shows wirefence_weight_and_pick / compute_weight / calc_cv_vector / high_acc_swap agree with an "
                "independent zone/run oracle (weight, reversal symmetry, positivity, segment = one run + bounding frames, proportional "
                "draw, weight vector, acceptance ratio). Bounded, not a proof: longer paths are outside.",
        "design_ref": "DESIGN.md section 3 C10 (H10)",
        "note": "floats modelled as reals (code only compares order parameters; the two float divisions are modelled as correctly "
                "rounded quotients); z3 trusted (cvc5 cross-check on thorough); oracle in oracles/wf.py; np facade validated per run",
        "technique": TECH,
    },
}
CLAIMS["C02"] = {
    "level": "other",
    "text": "For every reachable weight matrix with <= 4 ensembles and fully symbolic positive weights (all staircase patterns, all lock "
            "subsets with an idle perfect matching, every comparison outcome between weights), and up to 6 (7 thorough) ensembles with "
            "row-constant / unit weights, the solver shows each entry of inf_retis equals W_ij*perm(minor)/perm(W_idle) (a polynomial "
            "identity against an independent Leibniz permanent), zero on busy rows/columns and where W is zero, rows and columns sum to "
            "one, the repo's own assertions cannot fire, and quick_prob == permanent_prob == the ratio on row-constant blocks. "
            "Row-rescaling invariance is a corollary of the identity holding for all positive weights. In addition (HRX subset, k <= 3(4)): "
            "after every scheduler call of the inductive step / BMC the probability matrix the scheduler keeps cached equals "
            "inf_retis of the current state (no stale matrix is used for the next pick or fraction update). Bounded: larger systems outside.",
    "design_ref": "DESIGN.md section 3 C02 (H02, HRX)",
    "note": "exact real arithmetic stands for longdouble; staircase family only (holes excluded as find_blocks documents); random_prob "
            "(blocks > 12) outside; np facade + z3 trusted",
    "technique": TECH,
}
CLAIMS["C15"] = {
    "level": "other",
    "text": "For all segment pairs up to 4+4 frames (6+6 thorough), all integer limits / None / unequal limits, both overlap flags and "
            "all real order sequences and sorted interface triples, the solver shows paste_paths, reverse, copy, +=, append and the "
            "start/end/crossing classification agree with a list-level specification. Bounded by segment length.",
    "design_ref": "DESIGN.md section 3 C15 (H15)",
    "note": "finite real order parameters; System.copy is shallow by design, the property speaks about re-assigning fields; z3 trusted",
    "technique": TECH,
}
CLAIMS["C09"] = {
    "level": "other",
    "text": "run_md -> shoot / wire_fencing executed on symbolic old paths (3..4 frames; 5 thorough), symbolic interfaces, cap, integer "
            "length limit, shooting index and draws, with a script engine feeding fresh symbolic order values through the real "
            "add_to_path. For every feasible outcome pattern the solver shows: accept <=> status ACC; an accepted path is valid in its "
            "ensemble (independent predicate), time-ordered, contains the shooting point, has non-zero own weight; a rejection leaves "
            "the old path's frames untouched; shooting accepts exactly when the natural trial is valid, within the limit and "
            "draw <= n_old/n_new; shooting points are never end points; load ('ld') paths are exempt from the acceptance "
            "draw while restored ('re') and generated paths are not; a wire-fencing trial with zero high-acceptance weight is rejected. "
            "Bounded by path length / limit (stated in evidence).",
    "design_ref": "DESIGN.md section 3 C09 (H09)",
    "note": "engine obeys the C12 contract (script engine stub, real add_to_path); position-dependent order parameter (kick modelled "
            "by a fresh value); floats as reals, int() as exact floor; end frames exactly on an interface accepted (convention clash "
            "documented)",
    "technique": TECH,
}
CLAIMS["C11"] = {
    "level": "other",
    "text": "run_md -> retis_swap_zero / quantis_swap_zero executed with deterministic time-reversible line engines on symbolic order "
            "sequences, interfaces (with and without lambda_-1), integer length limit, energies, betas and draw. For every feasible "
            "outcome the solver shows: an accepted swap ends the new [0-] path with old [0+] frames 0,1 and starts the new [0+] path "
            "with old [0-] frames -2,-1, both valid in their ensembles and time-ordered; accept <=> ACC; old paths untouched; a second "
            "swap restores both order sequences (and is accepted whenever the originals fit the limit); the exponent handed to exp "
            "equals beta0*dV0-beta1*dV1 as a polynomial identity and the energy test passes <=> u <= min(1,exp(.)); a [0-] path that "
            "ended left is rejected with zero propagations. HRX subset: a zero swap re-issued after a restart keeps the "
            "([0-],[0+]) order of ensembles and paths whatever the path numbers are. Bounded: old paths 3..4 frames (5 thorough), limit <= 5 (6).",
    "design_ref": "DESIGN.md section 3 C11 (H11, HRX)",
    "note": "LineEngine stub (C12 contract, reversible dynamics) with the real add_to_path; exp as an arbitrary positive value; no "
            "old-path frame exactly on lambda_0; shared tis_set; z3 trusted",
    "technique": TECH,
}
TECH_HRX = ("bounded symbolic model checking of the real scheduler methods: inductive step from every invariant-satisfying "
            "pre-state + BMC from the real initial state; nondeterminism explored exhaustively, fractions/coin symbolic, z3-decided")
HRXNOTE = 'rng / file layer / PathStorage.output are recording stubs (random picks nondeterministic, any index with p>0); staircase family without holes; weights from the real calc_cv_vector on generated paths; workers <= ensembles-1; TOML library trusted (restart goes through the real tomli_w + tomllib); the asyncio process pool is outside'
CLAIMS["C03"] = {
    "level": "model_checking",
    "text": "One inductive step of the real scheduler (an arbitrary in-flight job finishes with an arbitrary outcome -> treat_output; "
            "then prep_md_items -> pick with every random outcome) from every pre-state satisfying invariant I (all arrangements of "
            "staircase paths over the slots, all realisable sets of in-flight jobs incl. zero swaps, 1..k-1 workers), k <= 4 (5 thorough), "
            "plus every event sequence from the real initial states to depth 2-3 (k<=3; deeper thorough). After each call: in-flight "
            "ensembles and paths pairwise disjoint, exactly those marked busy, each job's path has non-zero own weight, no shared engine "
            "instance / worker directory / pin, a zero swap starts only with both idle and holds both, no lock/unlock assertion fires; "
            "on a subset the same holds for the jobs handed out after one restart (initiation completed) and after a second restart "
            "from the file written when one of them finished. "
            "Since I is re-established, it holds after histories of any length within the size bound.",
    "design_ref": "DESIGN.md section 3 C03-C05 (HRX)", "note": HRXNOTE, "technique": TECH_HRX,
}
CLAIMS["C04"] = {
    "level": "model_checking",
    "text": "Same inductive step / BMC with symbolic accumulated fractions: the increment summed over live paths is exactly 1 in every "
            "idle column and 0 in busy ones, non-zero only where the path's weight is, busy paths get nothing; the captured data file gets "
            "exactly the rows of the replaced paths, once, carrying their pre-step fractions; traj_data holds exactly the live paths; the "
            "fractions survive write_toml -> real TOML round trip -> load_paths as the same values.",
    "design_ref": "DESIGN.md section 3 C03-C05 (HRX)", "note": HRXNOTE + "; decimal printing of longdouble replaced by exact tokens",
    "technique": TECH_HRX,
}
CLAIMS["C05"] = {
    "level": "model_checking",
    "text": "Same inductive step / BMC: the vector handed to rgen.choice is finite, non-negative and sums to one (no division by zero); "
            "sort_trajstate terminates (swap counter + cycle detection) and leaves every idle path where its weight is non-zero; the idle "
            "block keeps a perfect matching; live paths distinct, path numbers never reused; the restart file written at that moment "
            "(real tomli_w/tomllib) loads into a fresh REPEX_state without tripping add_traj's assertion; after such a restart one re-issued job finishes on "
            "the restarted state and the same obligations (and a restart file listing exactly the jobs then in flight) hold. k <= 4 (5 thorough).",
    "design_ref": "DESIGN.md section 3 C03-C05 (HRX)", "note": HRXNOTE, "technique": TECH_HRX,
}
CLAIMS["C14"] = {
    "level": "model_checking",
    "text": "Deletion clause, plus one clause of the store side (H14: an energy that is present -- any real, including exactly 0 -- is "
            "never written as the missing marker, missing ones are, each term in its own column); the decimal store/load round trip "
            "is outside. Deletion: in the same inductive "
            "step / BMC with delete_old(+_all) on and symbolic delete queues, every address handed to os.remove/rmdir belongs to a path "
            "that is not live, not in the restart file written in that step, is not an initial path, and headed a queue of >= n-1 "
            "replaced paths at the moment of removal; nothing is removed with delete_old off.",
    "design_ref": "DESIGN.md section 3 C14 / HRX", "note": HRXNOTE + "; an accepted path's files are its own (moved under load/<n>/accepted by the stubbed PathStorage.output)",
    "technique": TECH_HRX,
}
CLAIMS["C06"] = {
    "level": "model_checking",
    "text": "Partial (state / stream round trip; byte identity of files is outside). HRX: for every state reached in the inductive "
            "step / BMC the configuration captured by write_toml, sent through the real tomli_w/tomllib and loaded into a fresh "
            "REPEX_state reproduces slot order, weight matrix and fractions, and the initiation loop re-issues exactly the in-flight "
            "(ensemble, path) pairs, re-locks the same ensembles and keeps them on record for the next restart file; when one re-issued job then finishes, the "
            "locked list and the next restart file list exactly the jobs still in flight. H07: with a "
            "symbolic seed, after 0..2 chained restarts the scheduler stream (identity and position) is restored and, with one worker, "
            "the stream of allocation j equals f(seed, j) independent of where the stops were.",
    "design_ref": "DESIGN.md section 3 C06", "note": HRXNOTE + "; SeedSequence/BitGenerator model validated against numpy; byte identity of data/restart/order files, decimal formatting, real engines and load_path from disk are outside",
    "technique": TECH_HRX,
}
CLAIMS["C07"] = {
    "level": "other",
    "text": "Partial (stream identity; 'every in-process draw uses these streams' is a data-flow property outside SMT). With a symbolic "
            "seed, 1..3 workers, 0..2 chained restarts (stops after a completed step), every finishing order and zero-swap coin outcome: "
            "each allocation's move stream is (seed,(j,g)) and its engine stream (seed,(j,g,0)) with j the allocation ordinal, pairwise "
            "distinct and distinct from the scheduler's (seed,()); the scheduler keeps its stream across restarts. Multi-worker restarts "
            "violate the ordinal/distinctness clause on the unchanged tree: listed as a known finding.",
    "design_ref": "DESIGN.md section 3 C07 (H07)",
    "note": "model of numpy SeedSequence.spawn / BitGenerator.state (validated against numpy each run); pick outcomes fixed to the first "
            "admissible index (stream identity does not depend on them); file layer stubbed; real TOML round trip",
    "technique": TECH,
}
CLAIMS["C18"] = {
    "level": "other",
    "text": "Partial (validation predicate + initialisation; the TOML re-read fixed point of setup_config is outside). check_config runs "
            "on configurations with 0..4 symbolic interface values (every order and coincidence), symbolic cap / lambda_-1 / worker "
            "count, all sh/wf move vectors of length k-1..k+1, engine defined or not, and ensemble_engines layouts over three names each "
            "undefined or one of five definitions (with / without input_path, gromacs or not): every configuration invalid by the property's list "
            "raises TOMLConfigError (never another exception); every accepted configuration runs REPEX_state.__init__, "
            "initiate_ensembles, load_paths on staircase initial paths and the first `workers` picks without error, with a valid "
            "probability vector, disjoint jobs marked busy.",
    "design_ref": "DESIGN.md section 3 C18 (H18)",
    "note": "workers >= 1; initial paths climb through every lower region (hole patterns outside); HRX stubs for rng/file layer; "
            "rules beyond the property's list (quantis with lambda_-1, gromacs input_path) may reject without alarm",
    "technique": TECH,
}
CLAIMS["C17"] = {
    "level": "other",
    "text": "Partial (step arithmetic of scheduler/loop/initiate with the real REPEX_state; the asyncio runner is outside). With symbolic "
            "step count and restart point, 1..3 workers and every completion order, the solver shows: exactly `remaining` moves are "
            "treated and exactly as many jobs submitted, the final step counter equals steps, no job is in flight at runner.stop(), "
            "every result is consumed exactly once, the loop never polls an empty future list, the step counter in every captured "
            "restart file equals the completed moves; continuing from the final restart file with a larger symbolic step count, and "
            "restarting after a death with jobs in flight, satisfy the same counts.",
    "design_ref": "DESIGN.md section 3 C17 (H17)",
    "note": "remaining steps >= workers; fake runner/futures (any outstanding job completes next); aiorunner/future_list exactly-once "
            "delivery under all timings is a concurrency property outside this technique; HRX stubs",
    "technique": TECH,
}
CLAIMS["C20"] = {
    "level": "other",
    "text": "pbc_dist_coordinate and Distance/Distancevel/Position/Velocity/Dihedral/Puckering.calculate executed on symbolic "
            "coordinates, velocities, box lengths, translations, image shifts (m in -2..2) and generator rotations (s^2 -> 1-c^2 "
            "rewrite rule); sqrt/arctan2 kept exact (fresh variable with rule / opaque pair). For every feasible wrap pattern the "
            "solver shows translation, image-shift and rotation invariance as identities of exact rational expressions, sign change "
            "of velocity-type and invariance of position-type parameters under velocity reversal, equal results for 3- and 9-component "
            "boxes, |minimum image| <= L/2 and whole-box corrections, that calculate() leaves pos/vel/box element-wise untouched, and that the engines' calculate_order hands the frame's "
            "own box (not one the System carried before) to the order parameter. "
            "Bounded as stated in the evidence (puckering with one symbolic atom at a time).",
    "design_ref": "DESIGN.md section 3 C20 (H20)",
    "note": "exact reals for floats; orthogonal boxes; ties |d| = L/2 and degenerate geometries excluded; polynomials above degree 1 are "
            "forked on without asking the solver (over-approximation, sound for 'holds'; counterexamples must replay); sqrt variable only "
            "constrained >= 0 plus rewrite rule",
    "technique": TECH,
}
CLAIMS["C16"] = {
    "level": "other",
    "text": "Partial (algebra of velocity regeneration; the Gaussian shape is numpy's, ASE and GROMACS' own gen_vel are outside). "
            "modify_velocities of CP2K, LAMMPS, TurtleMD and GROMACS(infretis_genvel) plus draw_maxwellian_velocities, kinetic_energy, "
            "reset_momentum and prepare_shooting_point run on symbolic temperature, masses, velocities, positions, box and standard-"
            "normal draws (1..2 atoms; 3 thorough): one normal draw from the engine stream with loc 0 and sigma_i^2*m_i == kB*T as a "
            "polynomial identity (sqrt kept exact), written velocities == draws/unit-factor, zero total momentum exactly when requested "
            "and untouched otherwise, positions/box/atom identities preserved, kin_new == sum(m v^2)/2 of what was written, dek == "
            "kin_new-kin_old with kin_old in the engine's own units whatever kinetic energy the System carries (inf without old energy), the source frame unchanged, constants within 1e-5 of an independent CODATA table.",
    "design_ref": "DESIGN.md section 3 C16 (H16)",
    "note": "bare engine instances whose kb/_beta come from executing the constructor's own source lines; file layer pass-through; "
            "normal(loc, scale, size) == loc + scale * standard normals (numpy contract); draws non-zero",
    "technique": TECH,
}
CLAIMS["C12"] = {
    "level": "other",
    "text": "Partial (engine-side bookkeeping; the numerical MD trajectories are outside). (1) add_to_path on every path state, symbolic "
            "limit, order value and interfaces: a frame is appended unless the path is full, the path never exceeds the limit, stop <=> "
            "outside or limit reached, success <=> the last frame is outside. (2) EngineBase.propagate: the first frame is the given phase "
            "point, velocities are reversed on disk iff direction != vel_rev, the system handed on has the propagation direction. "
            "(3) the real _propagate_from of LAMMPS, CP2K and GROMACS under a fake process (symbolic exit time / return code) and fake "
            "readers delivering tagged frames in nondeterministic batches: frame k references configuration k and its stored order "
            "parameter was computed from x_k, box_k, v_k with that frame's direction applied once; propagation stops at the first frame "
            "outside / at the limit; the program is killed iff still running, waited for once; a failed program raises; a completed run "
            "returns all frames. (4) the real ASE _propagate_from with fake Atoms / calculator / integrator over two consecutive "
            "propagations: frame k is written with positions, velocities, energies and forces of configuration k (no stale calculator "
            "results), the integrator advances once per frame after the first.",
    "design_ref": "DESIGN.md section 3 C12 (H12)",
    "note": "process/reader/file layer are stubs with the stated contracts; ASE Atoms/calculator/dynamics are fakes with the ASE "
            "contract; the TurtleMD in-process loop, the TRR reader inside GromacsRunner and the MD programs themselves are outside",
    "technique": TECH,
}
CLAIMS["C13"] = {
    "level": "other",
    "text": "Partial (text readers + the size guards of the TRR reader; struct decoding of TRR is outside). read_and_process_content with xyz_reader and lammpstrj_reader runs "
            "on a fake file holding the written trajectory (1..2 atoms, a 12-atom count case, 2 frames; 3 thorough) cut at every token "
            "boundary, inside every token (every character prefix of structural tokens; floats: a truncated token parses to a fresh "
            "symbolic value) and before every newline, polled 1..2 times with growing cuts and then complete: no exception, never more "
            "frames than completely written ones, finally every frame exactly once and in order, every returned value equal to the written "
            "symbolic value (the solver would otherwise pick a differing truncated value), boxes included. TRR: "
            "GromacsRunner.get_gromacs_frames / read_remaining_trr with symbolic header (<= 1000) and data sizes and an arbitrary "
            "non-decreasing file size at every look (LIA): every header/data read lies inside what is on disk at that moment, only whole "
            "frames are consumed, frames come once and in order, and after the program exited all frames are returned.",
    "design_ref": "DESIGN.md section 3 C13 (H13)",
    "note": "str.split/readline/int/float trusted; a proper prefix or the remaining suffix of a number parses to an arbitrary other number; "
            "append-only writer; read_trr_header/get_data replaced by extent-recording stubs (byte order / precision decoding not covered)",
    "technique": TECH,
}
PENDING = "check not built yet in this revision (see DESIGN.md for the plan); no claim is made"
NOT_APPLICABLE = {
    "C01": "statistical convergence of a whole stochastic sampler: no bounded symbolic encoding; its algebraic obligations are decided under C02/C04/C09/C10/C11",
    "C08": "quantifies over crash positions in a trace of OS file-system effects and the outcome of TOML/path parsers on truncated trees: not symbolically executable with the installed tools (fault enumeration is a different technique family)",
    "C19": "every clause is a round trip through C-level text/binary codecs (str.format/float, struct, re, genfromtxt): not executable on symbolic data here",
}
for _p in []:
    if _p not in CLAIMS:
        NOT_APPLICABLE[_p] = PENDING
NOTES = ("All checks: exit 0 held within the stated bounds; exit 1 + VIOLATION line only for a counterexample that was replayed "
         "concretely against the real code; exit 3 = inconclusive or harness error (never a pass, never an alarm).")
