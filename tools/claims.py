"""What each registered check claims (MANIFEST text). Keep in step with DESIGN.md."""
TECH = "bounded symbolic execution of the real functions (exact rational proxies), z3-decided per path"
CLAIMS = {
    "C10": {
        "level": "other",
        "text": "For every path of <= 7 frames (9 thorough) and every real-valued order-parameter sequence, interface pair/triple, cap "
                "and draw, the solver shows wirefence_weight_and_pick / compute_weight / calc_cv_vector / high_acc_swap agree with an "
                "independent zone/run oracle (weight, reversal symmetry, positivity, segment = one run + bounding frames, proportional "
                "draw, weight vector, acceptance ratio). Bounded, not a proof: longer paths are outside.",
        "design_ref": "DESIGN.md section 3 C10 (H10)",
        "note": "floats modelled as reals (code only compares order parameters; the two float divisions are modelled as correctly "
                "rounded quotients); z3 trusted (cvc5 cross-check on thorough); oracle in oracles/wf.py; np facade validated per run",
        "technique": TECH,
    },
}
CLAIMS["C02"] = {
    "level": "other",
    "text": "For every reachable weight matrix with <= 4 ensembles and fully symbolic positive weights (all staircase patterns, all lock "
            "subsets with an idle perfect matching, every comparison outcome between weights), and up to 6 (7 thorough) ensembles with "
            "row-constant / unit weights, the solver shows each entry of inf_retis equals W_ij*perm(minor)/perm(W_idle) (a polynomial "
            "identity against an independent Leibniz permanent), zero on busy rows/columns and where W is zero, rows and columns sum to "
            "one, the repo's own assertions cannot fire, and quick_prob == permanent_prob == the ratio on row-constant blocks. "
            "Row-rescaling invariance is a corollary of the identity holding for all positive weights. Bounded: larger systems outside.",
    "design_ref": "DESIGN.md section 3 C02 (H02)",
    "note": "exact real arithmetic stands for longdouble; staircase family only (holes excluded as find_blocks documents); random_prob "
            "(blocks > 12) outside; np facade + z3 trusted",
    "technique": TECH,
}
CLAIMS["C15"] = {
    "level": "other",
    "text": "For all segment pairs up to 4+4 frames (6+6 thorough), all integer limits / None / unequal limits, both overlap flags and "
            "all real order sequences and sorted interface triples, the solver shows paste_paths, reverse, copy, +=, append and the "
            "start/end/crossing classification agree with a list-level specification. Bounded by segment length.",
    "design_ref": "DESIGN.md section 3 C15 (H15)",
    "note": "finite real order parameters; System.copy is shallow by design, the property speaks about re-assigning fields; z3 trusted",
    "technique": TECH,
}
CLAIMS["C09"] = {
    "level": "other",
    "text": "run_md -> shoot / wire_fencing executed on symbolic old paths (3..4 frames; 5 thorough), symbolic interfaces, cap, integer "
            "length limit, shooting index and draws, with a script engine feeding fresh symbolic order values through the real "
            "add_to_path. For every feasible outcome pattern the solver shows: accept <=> status ACC; an accepted path is valid in its "
            "ensemble (independent predicate), time-ordered, contains the shooting point, has non-zero own weight; a rejection leaves "
            "the old path's frames untouched; shooting accepts exactly when the natural trial is valid, within the limit and "
            "draw <= n_old/n_new; shooting points are never end points. Bounded by path length / limit (stated in evidence).",
    "design_ref": "DESIGN.md section 3 C09 (H09)",
    "note": "engine obeys the C12 contract (script engine stub, real add_to_path); position-dependent order parameter (kick modelled "
            "by a fresh value); floats as reals, int() as exact floor; end frames exactly on an interface accepted (convention clash "
            "documented); one known finding (frame exactly on the cap) routed through known_findings.jsonl",
    "technique": TECH,
}
CLAIMS["C11"] = {
    "level": "other",
    "text": "run_md -> retis_swap_zero / quantis_swap_zero executed with deterministic time-reversible line engines on symbolic order "
            "sequences, interfaces (with and without lambda_-1), integer length limit, energies, betas and draw. For every feasible "
            "outcome the solver shows: an accepted swap ends the new [0-] path with old [0+] frames 0,1 and starts the new [0+] path "
            "with old [0-] frames -2,-1, both valid in their ensembles and time-ordered; accept <=> ACC; old paths untouched; a second "
            "swap restores both order sequences (and is accepted whenever the originals fit the limit); the exponent handed to exp "
            "equals beta0*dV0-beta1*dV1 as a polynomial identity and the energy test passes <=> u <= min(1,exp(.)); a [0-] path that "
            "ended left is rejected with zero propagations. Bounded: old paths 3..4 frames (5 thorough), limit <= 5 (6).",
    "design_ref": "DESIGN.md section 3 C11 (H11)",
    "note": "LineEngine stub (C12 contract, reversible dynamics) with the real add_to_path; exp as an arbitrary positive value; no "
            "old-path frame exactly on lambda_0; shared tis_set; z3 trusted",
    "technique": TECH,
}
PENDING = "check not built yet in this revision (see DESIGN.md for the plan); no claim is made"
NOT_APPLICABLE = {
    "C01": "statistical convergence of a whole stochastic sampler: no bounded symbolic encoding; its algebraic obligations are decided under C02/C04/C09/C10/C11",
    "C08": "quantifies over crash positions in a trace of OS file-system effects and the outcome of TOML/path parsers on truncated trees: not symbolically executable with the installed tools (fault enumeration is a different technique family)",
    "C19": "every clause is a round trip through C-level text/binary codecs (str.format/float, struct, re, genfromtxt): not executable on symbolic data here",
}
for _p in ["C03", "C04", "C05", "C06", "C07", "C12", "C13", "C14", "C16", "C17", "C18", "C20"]:
    if _p not in CLAIMS:
        NOT_APPLICABLE[_p] = PENDING
NOTES = ("All checks: exit 0 held within the stated bounds; exit 1 + VIOLATION line only for a counterexample that was replayed "
         "concretely against the real code; exit 3 = inconclusive or harness error (never a pass, never an alarm).")
