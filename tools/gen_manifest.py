#!/usr/bin/env python3
"""Regenerate MANIFEST.json from symx/registry.py + tools/claims.py (single source of truth)."""
import json, os, sys
ROOT = os.path.dirname(os.path.dirname(os.path.abspath(__file__)))
sys.path.insert(0, ROOT)
from tools.claims import CLAIMS, NOT_APPLICABLE, NOTES  # noqa: E402

checks = []
for pid in sorted(CLAIMS):
    c = CLAIMS[pid]
    checks.append({
        "property_id": pid,
        "quick_cmd": f"./check {pid} --tier quick",
        "thorough_cmd": f"./check {pid} --tier thorough",
        "evidence_file": f"evidence/{pid}.json",
        "replay_cmd_template": "./check --replay {path}",
        "engine": "symx",
        "level_claimed": {"category": c["level"], "text": c["text"], "design_ref": c["design_ref"]},
        "level_note": c["note"],
        "technique": c["technique"],
    })
manifest = {
    "version": 1,
    "setup_cmd": "./setup.sh",
    "hooks": {
        "guard": "INFRETIS_VERIF",
        "enable": "no source hooks: harness processes patch module globals (np facade, builtins) of the imported /repo modules at run time",
        "baseline_off_cmd": "cd /repo && /venv/bin/python -m pytest -ra -q -p no:cacheprovider --timeout=900 --continue-on-collection-errors",
        "source_commits": [],
        "add_only": True,
    },
    "engines": [{
        "name": "symx", "path": "symx/",
        "serves_properties": sorted(CLAIMS),
        "kind_free_text": "own symbolic executor: real /repo functions run on exact rational-function proxies; branches and assertions decided by z3 (cvc5 cross-check on the thorough tier); DFS over decision log with re-execution; counterexamples replayed concretely against the real code",
    }],
    "checks": checks,
    "notes": NOTES,
    "not_applicable": [{"property_id": k, "reason": v} for k, v in sorted(NOT_APPLICABLE.items())],
}
json.dump(manifest, open(os.path.join(ROOT, "MANIFEST.json"), "w"), indent=1)
try:
    import jsonschema
    jsonschema.validate(manifest, json.load(open("/root/.vp/MANIFEST.schema.json")))
    print("MANIFEST.json valid;", len(checks), "checks,", len(NOT_APPLICABLE), "not applicable")
except ImportError:
    print("written (jsonschema not available)")
