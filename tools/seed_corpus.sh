#!/bin/sh
# tools/seed_corpus.sh <seed-name>...   re-runs the quick check of each seed's property with the seed applied to /repo
# (applied with git apply, undone straight afterwards); prints one line per seed.
cd /repo || exit 9
[ -z "$(git status --porcelain --untracked-files=no)" ] || { echo "/repo not clean"; exit 9; }
for S in "$@"; do
  P=$(echo $S | cut -c1-3)
  git -C /repo apply /verif/seeded/$S/patch.diff || { echo "$S PATCH DOES NOT APPLY"; continue; }
  s=$(date +%s)
  r=$(cd /verif && timeout ${SEED_TIMEOUT:-1500} ./check $P --no-evidence 2>&1 | grep -E "label=|held on|INCONCLUSIVE" | head -1 | cut -c1-140)
  git -C /repo checkout -- .
  echo "$S $(( $(date +%s)-s ))s ${r:-TIMEOUT/none}"
done
git -C /repo status --porcelain --untracked-files=no
