#!/bin/sh
# confirm that a seeded patch keeps the existing test suite at 76 passed (run in a scratch worktree)
for S in "$@"; do
  WT=/tmp/seedtest_$$_$(basename $S)
  git -C /repo worktree add -q $WT HEAD || exit 9
  (cd $WT && git apply $S/patch.diff && /venv/bin/python -m pytest -q -p no:cacheprovider --timeout=900 2>&1 | tail -1 | sed "s|^|$(basename $S): |")
  git -C /repo worktree remove --force $WT
done
